"""Cooperative scheduler for real threads, driven by sys.monitoring LINE events (yield injection).

Exactly one controlled thread runs at a time. Yield points are LINE events on an explicit set of code objects plus the
acquire / wait operations of proxy locks. Locks stay real (mutual exclusion is still provided by whatever lock object the
code under test creates and uses); the proxies only make blocking visible to the scheduler.

Exploration strategies: seeded random walks, and depth-first enumeration of all schedules with a bounded number of
preemptions (a context switch at a point where the running thread could have continued).
"""
from __future__ import annotations

import random
import sys
import threading
import time
import types

mon = sys.monitoring
TOOL = 3
_real_threading = threading

ACTIVE = None  # the Sched currently running (at most one per process)


class Stuck(Exception):
    pass


class _T:
    __slots__ = ("name", "idx", "thread", "sem", "state", "wants", "waiting_on", "wait_timeout", "notified", "timed_out", "loc", "exc", "result", "steps")

    def __init__(self, name, idx):
        self.name, self.idx = name, idx
        self.sem = _real_threading.Semaphore(0)
        self.state = "new"  # new | ready | running | waiting | done
        self.wants = None
        self.waiting_on = None
        self.wait_timeout = None
        self.notified = False
        self.timed_out = False
        self.loc = ("start", 0)
        self.exc = None
        self.result = None
        self.steps = 0


class Sched:
    def __init__(self, fns, codes, chooser, max_steps=4000, arrive_timeout=20.0, names=None):
        """fns: list of zero-arg callables (one per controlled thread); codes: iterable of code objects whose lines are
        yield points; chooser(sched, candidates, current) -> chosen _T"""
        self.ts = [_T((names[i] if names else f"T{i}"), i) for i in range(len(fns))]
        self.fns = fns
        self.codes = list(codes)
        self.chooser = chooser
        self.max_steps = max_steps
        self.arrive_timeout = arrive_timeout
        self.arrived = _real_threading.Event()
        self.by_ident = {}
        self.trace = []  # (thread index, code name, line)
        self.decisions = []  # (candidate indices, chosen index, current index or None, preemption?)
        self.stuck = None
        self.current = None
        self.line_hits = {}

    # ---- called from controlled threads ------------------------------------------------------------------------------------
    def me(self):
        return self.by_ident.get(_real_threading.get_ident())

    def _park(self, t):
        """hand control back to the scheduler and wait to be chosen again"""
        self.arrived.set()
        t.sem.acquire()

    def yield_point(self, t, what, line):
        t.loc = (what, line)
        t.steps += 1
        self.trace.append((t.idx, what, line))
        t.state = "ready"
        self._park(t)

    def _thread_main(self, t, fn):
        self.by_ident[_real_threading.get_ident()] = t
        t.sem.acquire()  # wait for first scheduling
        try:
            t.result = fn()
        except BaseException as e:  # noqa
            t.exc = e
        finally:
            t.state = "done"
            self.arrived.set()

    # ---- scheduler loop (runs in the calling thread) --------------------------------------------------------------------------
    def _runnable(self, t):
        if t.state == "ready":
            if t.wants is not None and t.wants.owner is not None and t.wants.owner is not t:
                return False
            return True
        if t.state == "waiting":
            return t.notified or t.wait_timeout is not None
        return False

    def run(self):
        global ACTIVE
        if ACTIVE is not None:
            raise RuntimeError("nested schedulers")
        ACTIVE = self
        _install_monitoring(self.codes)
        try:
            for t, fn in zip(self.ts, self.fns):
                t.thread = _real_threading.Thread(target=self._thread_main, args=(t, fn), daemon=True)
                t.state = "ready"
                t.thread.start()
            steps = 0
            while True:
                if all(t.state == "done" for t in self.ts):
                    break
                cand = [t for t in self.ts if self._runnable(t)]
                if not cand:
                    self.stuck = {"reason": "deadlock: no runnable thread", "states": [(t.name, t.state, t.loc, getattr(t.wants, "label", None)) for t in self.ts]}
                    break
                steps += 1
                if steps > self.max_steps:
                    self.stuck = {"reason": "step bound exceeded", "states": [(t.name, t.state, t.loc) for t in self.ts]}
                    break
                cur = self.current if (self.current is not None and self.current in cand) else None
                t = self.chooser(self, cand, cur)
                self.decisions.append(([c.idx for c in cand], t.idx, cur.idx if cur else None))
                if t.state == "waiting" and not t.notified:
                    t.timed_out = True  # the scheduler decided that this timed wait times out now
                self.current = t
                t.state = "running"
                self.arrived.clear()
                t.sem.release()
                if not self.arrived.wait(self.arrive_timeout):
                    self.stuck = {"reason": "thread did not reach a yield point (blocked outside the scheduler's view)", "thread": t.name, "loc": t.loc}
                    break
        finally:
            _uninstall_monitoring(self.codes)
            ACTIVE = None
            if self.stuck:
                # let parked threads run to completion freely so they do not leak (best effort)
                for t in self.ts:
                    if t.state != "done":
                        for _ in range(1000):
                            t.sem.release()
                for t in self.ts:
                    if t.thread is not None:
                        t.thread.join(0.5)
        return self

    def schedule_id(self):
        return tuple(self.trace)


# ---- monitoring ------------------------------------------------------------------------------------------------------------------
_installed = False


def _line_cb(code, line):
    s = ACTIVE
    if s is None:
        return None
    t = s.by_ident.get(_real_threading.get_ident())
    if t is None or t.state != "running":
        return None
    s.line_hits[(code.co_name, line)] = s.line_hits.get((code.co_name, line), 0) + 1
    s.yield_point(t, code.co_name, line)
    return None


def _install_monitoring(codes):
    global _installed
    if not _installed:
        if mon.get_tool(TOOL) is None:
            mon.use_tool_id(TOOL, "vf-sched")
        mon.register_callback(TOOL, mon.events.LINE, _line_cb)
        _installed = True
    for c in codes:
        mon.set_local_events(TOOL, c, mon.events.LINE)


def _uninstall_monitoring(codes):
    for c in codes:
        try:
            mon.set_local_events(TOOL, c, 0)
        except Exception:
            pass


def code_objects(*fns):
    """code objects of functions/methods (and of the functions nested in them)"""
    out = []
    seen = set()

    def add(co):
        if id(co) in seen:
            return
        seen.add(id(co))
        out.append(co)
        for k in co.co_consts:
            if isinstance(k, types.CodeType):
                add(k)

    for f in fns:
        f = getattr(f, "__func__", f)
        f = getattr(f, "__wrapped__", f)
        co = getattr(f, "__code__", None)
        if co is None and isinstance(f, (staticmethod, classmethod)):
            co = f.__func__.__code__
        if co is not None:
            add(co)
    return out


# ---- lock proxies -----------------------------------------------------------------------------------------------------------------
class PLock:
    """wraps a real (R)Lock; under the scheduler a blocking acquire becomes a try-acquire loop that reports 'blocked'"""

    _n = 0

    def __init__(self, reentrant):
        self._real = _real_threading.RLock() if reentrant else _real_threading.Lock()
        self._reentrant = reentrant
        self.owner = None  # _T or thread ident
        self.count = 0
        PLock._n += 1
        self.label = f"{'RLock' if reentrant else 'Lock'}#{PLock._n}"

    def acquire(self, blocking=True, timeout=-1):
        s = ACTIVE
        t = s.me() if s is not None else None
        if t is None or t.state != "running":
            ok = self._real.acquire(blocking, timeout)
            if ok:
                self.owner = self.owner if self.count else _real_threading.get_ident()
                self.count += 1
            return ok
        s.yield_point(t, "lock.acquire", 0)
        while True:
            if self._real.acquire(False):
                self.owner = t
                self.count += 1
                t.wants = None
                return True
            if not blocking:
                return False
            t.wants = self
            s.yield_point(t, "lock.blocked", 0)

    def release(self):
        self.count -= 1
        if self.count <= 0:
            self.count = 0
            self.owner = None
        self._real.release()

    def locked(self):
        return self.count > 0

    def _is_owned(self):
        s = ACTIVE
        t = s.me() if s is not None else None
        return self.owner is (t if t is not None else _real_threading.get_ident())

    __enter__ = acquire

    def __exit__(self, *a):
        self.release()


class PCondition:
    def __init__(self, lock=None):
        self._lock = lock if lock is not None else PLock(True)
        self._real_cond = None
        self._waiters = []
        self.acquire = self._lock.acquire
        self.release = self._lock.release

    def __enter__(self):
        return self._lock.acquire()

    def __exit__(self, *a):
        self._lock.release()

    def wait(self, timeout=None):
        s = ACTIVE
        t = s.me() if s is not None else None
        if t is None or t.state != "running":
            # outside the scheduler: emulate with a real condition bound to the real lock
            if self._real_cond is None:
                self._real_cond = _real_threading.Condition(self._lock._real)
            cnt, owner = self._lock.count, self._lock.owner
            self._lock.count, self._lock.owner = 0, None
            try:
                return self._real_cond.wait(timeout)
            finally:
                self._lock.count, self._lock.owner = cnt, owner
        # release the lock completely
        cnt = self._lock.count
        for _ in range(cnt):
            self._lock.release()
        t.waiting_on, t.wait_timeout, t.notified, t.timed_out = self, timeout, False, False
        self._waiters.append(t)
        t.state = "waiting"
        t.loc = ("cond.wait", 0)
        s.trace.append((t.idx, "cond.wait", 0))
        s._park(t)
        # resumed: either notified or the scheduler decided on a timeout
        if t in self._waiters:
            self._waiters.remove(t)
        notified = t.notified
        t.waiting_on, t.wait_timeout = None, None
        for _ in range(cnt):
            self._lock.acquire()
        return bool(notified)

    def wait_for(self, predicate, timeout=None):
        result = predicate()
        while not result:
            if not self.wait(timeout):
                return predicate()
            result = predicate()
        return result

    def notify(self, n=1):
        for t in list(self._waiters)[:n]:
            t.notified = True
            self._waiters.remove(t)
        if self._real_cond is not None:
            try:
                self._real_cond.notify(n)
            except RuntimeError:
                pass

    def notify_all(self):
        self.notify(len(self._waiters) + 1000000)

    notifyAll = notify_all


class ThreadingProxy:
    """stands in for the `threading` module global of a basilisp module"""

    def __init__(self):
        self.created = []

    def RLock(self):
        l = PLock(True)
        self.created.append(l)
        return l

    def Lock(self):
        l = PLock(False)
        self.created.append(l)
        return l

    def Condition(self, lock=None):
        return PCondition(lock)

    def __getattr__(self, name):
        return getattr(_real_threading, name)


# ---- choosers / exploration -------------------------------------------------------------------------------------------------------
def random_chooser(rnd, switch_prob=0.35):
    def choose(s, cand, cur):
        if cur is not None and rnd.random() > switch_prob:
            return cur
        return rnd.choice(cand)

    return choose


def replay_chooser(choices, fallback=None):
    it = iter(choices)

    def choose(s, cand, cur):
        try:
            want = next(it)
        except StopIteration:
            want = None
        if want is not None:
            for c in cand:
                if c.idx == want:
                    return c
        if fallback is not None:
            return fallback(s, cand, cur)
        return cur if cur is not None else cand[0]

    return choose


def explore_bounded(make_run, max_preemptions=2, max_schedules=20000, deadline=None):
    """DFS over schedules with at most `max_preemptions` preemptions. make_run(chooser) -> Sched (already run).
    Yields each finished Sched. The default policy continues the current thread when it can."""
    stack = [([], 0)]  # (forced prefix of choices, preemptions used in prefix)
    seen = 0
    while stack:
        prefix, used = stack.pop()
        s = make_run(replay_chooser(prefix))
        seen += 1
        yield s
        if seen >= max_schedules or (deadline is not None and time.time() > deadline):
            return
        # branch on every decision after the forced prefix
        used_so_far = used
        for i in range(len(prefix), len(s.decisions)):
            cand, chosen, cur = s.decisions[i]
            for alt in cand:
                if alt == chosen:
                    continue
                pre = 1 if (cur is not None and alt != cur) else 0
                if used_so_far + pre > max_preemptions:
                    continue
                stack.append(([d[1] for d in s.decisions[:i]] + [alt], used_so_far + pre))
            # the default choice itself may have been a preemption only if forced; defaults never preempt
