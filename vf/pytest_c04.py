"""pytest plugin (C04 thorough): the repository's own test-suite as a workload under the receiver-immutability hook.

Loaded with `-p vf.pytest_c04` in a pytest run over /repo/tests; installs vf/c04hook.py in every pytest process and appends the hook's
findings and call counts to $VERIF_C04_OUT/<pid>.jsonl. The tests' own verdicts are irrelevant here.
"""
from __future__ import annotations

import json
import os

from vf import c04hook

_OUT = os.environ.get("VERIF_C04_OUT")
_hook = c04hook.install()
_reported = [0]


def _emit(rec):
    if not _OUT:
        return
    with open(os.path.join(_OUT, "%d.jsonl" % os.getpid()), "a") as f:
        f.write(json.dumps(rec) + "\n")


def pytest_runtest_setup(item):
    _hook["context"] = item.nodeid


def pytest_runtest_teardown(item, nextitem):
    v = _hook["viol"]
    while _reported[0] < len(v) and _reported[0] < 50:
        cls, meth, args, ctx = v[_reported[0]]
        _emit({"t": "viol", "cls": cls, "method": meth, "args": args, "test": ctx})
        _reported[0] += 1


def pytest_sessionfinish(session, exitstatus):
    _emit({"t": "stats", "calls": _hook["calls"], "violations": len(_hook["viol"])})
