"""Program generator, renderer and reference evaluator for the special-form fragment (C01, C02, C15).

Independent of basilisp: programs are Python tuples, rendered to text for the system under test, and
evaluated here by a small evaluator that can also play two *defect models* (section 3.6 of DESIGN.md):

  cells=True   locals are Python variables: one cell per binding site and function activation, so closures created in a
               loop* iteration observe later rebindings (recorded finding C01/closure/late-binding-loop-local)
  hoist=True   the generator hoists the statements of compound sub-forms in front of the inline expressions of their
               earlier siblings (recorded finding C02/order/hoisted-dependency)

Node kinds
  ("const", v)  v: None/bool/int/str/("kw",name)
  ("local", name) ("global", name)
  ("if", test, then, else|None) ("do", [e..]) ("let", [(name, init)..], [body..])
  ("fn", name|None, [(params, restname|None, [body..])..])   ("call", f, [args])
  ("loop", [(name, init)..], [body..])  ("recur", [args])   (loop recur and fn recur)
  ("letfn", [(name, fnnode)..], [body..])
  ("try", [body..], [(excclass, name, [body..])..], [finally..]|None)  ("throw", kind, msg)
  ("def", name, init)  ("vec", [e..]) ("list", [e..]) ("map", [(k, v)..]) ("set", [e..])  ("quote", datum-text, norm)
  ("prim", op, [args])  ("t", k, e)  ("icall", kind, [args])  kind in {"method", "dotform", "new"}
"""
from __future__ import annotations

import itertools
import random

# ----------------------------------------------------------------------------------------------------------------
# rendering

EXC_CLASSES = {"ValueError": "python/ValueError", "KeyError": "python/KeyError", "ExceptionInfo": "basilisp.lang.exception/ExceptionInfo", "Exception": "python/Exception"}


def render_const(v):
    if v is None:
        return "nil"
    if v is True:
        return "true"
    if v is False:
        return "false"
    if isinstance(v, int):
        return str(v)
    if isinstance(v, str):
        return '"' + v.replace("\\", "\\\\").replace('"', '\\"') + '"'
    if isinstance(v, tuple) and v[0] == "kw":
        return ":" + v[1]
    raise ValueError(v)


PRIM_TEXT = {"callall": None}


def render(n, macros=False):
    """macros=True renders let/fn/loop/letfn through the user-facing macros instead of the starred special forms."""
    k = n[0]
    R = lambda x: render(x, macros)
    if k == "const":
        return render_const(n[1])
    if k in ("local", "global"):
        return n[1]
    if k == "if":
        return "(if " + R(n[1]) + " " + R(n[2]) + ("" if n[3] is None else " " + R(n[3])) + ")"
    if k == "do":
        return "(do" + "".join(" " + R(e) for e in n[1]) + ")"
    if k == "let":
        return "(" + ("let" if macros else "let*") + " [" + " ".join(nm + " " + R(e) for nm, e in n[1]) + "]" + "".join(" " + R(e) for e in n[2]) + ")"
    if k == "fn":
        head = "(" + ("fn" if macros else "fn*") + (" " + n[1] if n[1] else "")
        ars = []
        for params, rest, body in n[2]:
            ps = " ".join(params) + ((" & " + rest) if rest else "")
            ars.append("[" + ps.strip() + "]" + "".join(" " + R(e) for e in body))
        if len(ars) == 1:
            return head + " " + ars[0] + ")"
        return head + "".join(" (" + a + ")" for a in ars) + ")"
    if k == "call":
        return "(" + R(n[1]) + "".join(" " + R(a) for a in n[2]) + ")"
    if k == "loop":
        return "(" + ("loop" if macros else "loop*") + " [" + " ".join(nm + " " + R(e) for nm, e in n[1]) + "]" + "".join(" " + R(e) for e in n[2]) + ")"
    if k == "recur":
        return "(recur" + "".join(" " + R(a) for a in n[1]) + ")"
    if k == "letfn":
        if macros:
            fs = []
            for nm, f in n[1]:
                params, rest, body = f[2][0]
                fs.append("(" + nm + " [" + " ".join(params) + "]" + "".join(" " + R(e) for e in body) + ")")
            return "(letfn [" + " ".join(fs) + "]" + "".join(" " + R(e) for e in n[2]) + ")"
        return "(letfn* [" + " ".join(nm + " " + R(f) for nm, f in n[1]) + "]" + "".join(" " + R(e) for e in n[2]) + ")"
    if k == "try":
        s = "(try" + "".join(" " + R(e) for e in n[1])
        for cls, nm, body in n[2]:
            s += " (catch " + EXC_CLASSES[cls] + " " + nm + "".join(" " + R(e) for e in body) + ")"
        if n[3] is not None:
            s += " (finally" + "".join(" " + R(e) for e in n[3]) + ")"
        return s + ")"
    if k == "throw":
        if n[1] == "ExceptionInfo":
            return '(throw (ex-info ' + render_const(n[2]) + " {}))"
        return "(throw (" + EXC_CLASSES[n[1]] + " " + render_const(n[2]) + "))"
    if k == "def":
        return "(def " + n[1] + " " + R(n[2]) + ")"
    if k == "vec":
        return "[" + " ".join(R(e) for e in n[1]) + "]"
    if k == "list":
        return "(list" + "".join(" " + R(e) for e in n[1]) + ")"
    if k == "map":
        return "{" + " ".join(R(a) + " " + R(c) for a, c in n[1]) + "}"
    if k == "set":
        return "#{" + " ".join(R(e) for e in n[1]) + "}"
    if k == "quote":
        return "(quote " + n[1] + ")"
    if k == "prim":
        op = n[1]
        if op == "callall":
            return "(mapv (fn* [f__] (f__)) " + R(n[2][0]) + ")"
        return "(" + op + "".join(" " + R(a) for a in n[2]) + ")"
    if k == "t":
        return "(t " + str(n[1]) + " " + R(n[2]) + ")"
    if k == "icall":
        kind, args = n[1], n[2]
        if kind == "method":
            return "(.m" + "".join(" " + R(a) for a in args) + ")"
        if kind == "dotform":
            return "(. " + R(args[0]) + " m" + "".join(" " + R(a) for a in args[1:]) + ")"
        if kind == "new":
            return "(new HC" + "".join(" " + R(a) for a in args) + ")"
        if kind == "ctor":
            return "(HC." + "".join(" " + R(a) for a in args) + ")"
        if kind == "field":
            return "(.-fld " + R(args[0]) + ")"
        if kind == "field2":
            return "(. " + R(args[0]) + " -fld)"
    raise ValueError(k)


def size(n):
    if not isinstance(n, tuple):
        if isinstance(n, list):
            return sum(size(x) for x in n)
        return 0
    return 1 + sum(size(x) for x in n[1:] if isinstance(x, (tuple, list)))


# ----------------------------------------------------------------------------------------------------------------
# reference evaluator


class Cell:
    __slots__ = ("v",)

    def __init__(self, v=None):
        self.v = v


class Closure:
    __slots__ = ("node", "env", "name")

    def __init__(self, node, env, name):
        self.node, self.env, self.name = node, env, name


class HarnessObj:
    """model of the harness object `o` whose method m returns its arguments as a vector"""


class Throw(Exception):
    def __init__(self, kind):
        self.kind = kind


class RecurSig:
    __slots__ = ("args",)

    def __init__(self, args):
        self.args = args


class Activation:
    __slots__ = ("cells",)

    def __init__(self):
        self.cells = {}


class StepLimit(Exception):
    pass


class Ref:
    def __init__(self, cells=False, hoist=False, max_steps=200000):
        self.cells, self.hoist = cells, hoist
        self.trace = []
        self.globals = {}
        self.steps = 0
        self.max_steps = max_steps

    # -- public ---------------------------------------------------------------------------------------------------
    def run(self, prog):
        """returns (("val", normalized) | ("exc", kind), trace)"""
        self.trace = []
        self.globals = {}
        self.steps = 0
        def unroll(forms):
            # the compiler unrolls top-level do forms: every child is compiled and run as a top-level form of its own, in
            # expression position (matters only to the statement-position rule of the hoisting model)
            for f in forms:
                if isinstance(f, tuple) and f and f[0] == "do":
                    yield from unroll(f[1])
                else:
                    yield f

        try:
            env, act = {"o": Cell(HarnessObj())}, Activation()
            v = None
            for f in unroll([prog]):
                v = self.ev(f, env, act)
            return ("val", self.norm(v)), list(self.trace)
        except Throw as e:
            return ("exc", e.kind), list(self.trace)

    def norm(self, v):
        if isinstance(v, Closure):
            return ("fn",)
        if isinstance(v, HarnessObj):
            return ("obj",)
        if isinstance(v, tuple) and v and v[0] in ("vec", "list", "hc"):
            return (v[0], tuple(self.norm(x) for x in v[1]))
        if isinstance(v, tuple) and v and v[0] == "map":
            return ("map", frozenset((self.norm(a), self.norm(c)) for a, c in v[1]))
        if isinstance(v, tuple) and v and v[0] == "set":
            return ("set", frozenset(self.norm(x) for x in v[1]))
        return v

    # -- machinery --------------------------------------------------------------------------------------------------
    def bind(self, env, act, site, name, value):
        if self.cells:
            c = act.cells.get(site)
            if c is None:
                c = act.cells[site] = Cell()
        else:
            c = Cell()
        c.v = value
        e2 = dict(env)
        e2[name] = c
        return e2

    def ev(self, n, env, act):
        return self.stage(n, env, act)()

    def body(self, forms, env, act, stmt=False, force=False):
        """synthetic do: statements forced in order, the last one staged (its inline part belongs to the parent). In statement
        position (value unused: a non-last body form, or an element of a collection literal that is itself in statement position)
        the generator emits the value expression of let* / letfn* (force=True; not of do) as a statement of its own, i.e. it is
        forced at once; the position is handed down to the last form."""
        for f in forms[:-1]:
            self.stage(f, env, act, True)()
        th = self.stage(forms[-1], env, act, stmt)
        if stmt and force and self.hoist:
            v = th()
            return lambda: v
        return th

    def stage(self, n, env, act, stmt=False):
        self.steps += 1
        if self.steps > self.max_steps:
            raise StepLimit()
        k = n[0]
        if k == "const":
            v = n[1]
            return lambda: v
        if k == "local":
            c = env[n[1]]
            return lambda: c.v
        if k == "global":
            nm = n[1]
            return lambda: self.globals[nm]
        if k == "quote":
            v = n[2]
            return lambda: v
        if k in ("call", "prim", "t", "vec", "list", "set", "icall"):
            kids = self.kids(n)
            if not self.hoist:
                vals = [self.ev(c, env, act) for c in kids]
                v = self.apply(n, vals)
                return lambda: v
            # elements of a vector / set literal inherit the literal's own syntax position; arguments of calls are expressions
            th = [self.stage(c, env, act, stmt and k in ("vec", "set")) for c in kids]
            return lambda: self.apply(n, [t() for t in th])
        if k == "map":
            ks = [a for a, _ in n[1]]
            vs = [c for _, c in n[1]]
            if not self.hoist:
                pairs = [(self.ev(a, env, act), self.ev(c, env, act)) for a, c in n[1]]
                v = ("map", tuple(pairs))
                return lambda: v
            tk = [self.stage(a, env, act, stmt) for a in ks]
            tv = [self.stage(c, env, act, stmt) for c in vs]
            return lambda: ("map", tuple((a(), c()) for a, c in zip(tk, tv)))
        if k == "fn":
            clo = Closure(n, env, n[1])
            return lambda: clo
        if k == "if":
            tv = self.ev(n[1], env, act)
            if tv is None or tv is False:
                br = n[3]
            else:
                br = n[2]
            v = None if br is None else self.stage(br, env, act, stmt)()
            return lambda: v
        if k == "do":
            return self.body(n[1], env, act, stmt)
        if k == "let":
            e2 = env
            for i, (nm, init) in enumerate(n[1]):
                e2 = self.bind(e2, act, (id(n), i), nm, self.ev(init, e2, act))
            return self.body(n[2], e2, act, stmt, force=True)
        if k == "letfn":
            e2 = dict(env)
            cells = []
            for i, (nm, f) in enumerate(n[1]):
                c = Cell()
                e2[nm] = c
                cells.append(c)
            for c, (nm, f) in zip(cells, n[1]):
                c.v = Closure(f, e2, f[1])
            return self.body(n[2], e2, act, stmt, force=True)
        if k == "loop":
            e2 = env
            names = []
            for i, (nm, init) in enumerate(n[1]):
                e2 = self.bind(e2, act, (id(n), i), nm, self.ev(init, e2, act))
                names.append(nm)
            while True:
                self.steps += 1
                if self.steps > self.max_steps:
                    raise StepLimit()
                r = self.body(n[2], e2, act)()
                if isinstance(r, RecurSig):
                    if self.cells:
                        for nm, v in zip(names, r.args):
                            e2[nm].v = v
                    else:
                        e2 = dict(e2)
                        for nm, v in zip(names, r.args):
                            e2[nm] = Cell(v)
                    continue
                return (lambda r=r: r)
        if k == "recur":
            if not self.hoist:
                vals = [self.ev(a, env, act) for a in n[1]]
            else:
                th = [self.stage(a, env, act) for a in n[1]]
                vals = [t() for t in th]
            r = RecurSig(vals)
            return lambda: r
        if k == "throw":
            raise Throw(n[1])
        if k == "try":
            pending = None
            try:
                try:
                    v = self.body(n[1], env, act)()
                except Throw as e:
                    for cls, nm, hb in n[2]:
                        if cls == e.kind or cls == "Exception":
                            e2 = self.bind(env, act, (id(n), cls, nm), nm, ("exc", e.kind))
                            v = self.body(hb, e2, act)()
                            break
                    else:
                        raise
            finally:
                if n[3] is not None:
                    self.body(n[3], env, act)()
            return lambda: v
        if k == "def":
            v = self.ev(n[2], env, act)
            self.globals[n[1]] = v
            r = ("var", n[1])
            return lambda: r
        raise ValueError(k)

    def kids(self, n):
        k = n[0]
        if k == "call":
            return [n[1]] + list(n[2])
        if k == "t":
            return [n[2]]
        if k in ("vec", "list", "set"):
            return list(n[1])
        if k in ("prim", "icall"):
            return list(n[2])
        raise ValueError(k)

    def apply(self, n, vals):
        k = n[0]
        if k == "t":
            self.trace.append(n[1])
            return vals[0]
        if k == "vec":
            return ("vec", tuple(vals))
        if k == "list":
            return ("list", tuple(vals))
        if k == "set":
            return ("set", tuple(vals))
        if k == "icall":
            kind = n[1]
            if kind in ("method", "dotform"):
                return ("vec", tuple(vals[1:]))
            if kind in ("field", "field2"):
                if not isinstance(vals[0], HarnessObj):
                    raise Throw("AttributeError")
                return 7  # the harness object's attribute fld
            return ("hc", tuple(vals))  # (new HC a b) -> harness class instance, normalised to ("hc", args)
        if k == "prim":
            return self.prim(n[1], vals)
        if k == "call":
            return self.call(vals[0], vals[1:])
        raise ValueError(k)

    def call(self, f, args):
        if not isinstance(f, Closure):
            raise Throw("TypeError")
        while True:
            self.steps += 1
            if self.steps > self.max_steps:
                raise StepLimit()
            node = f.node
            arity = None
            for ar in node[2]:
                params, rest, body = ar
                if rest is None and len(params) == len(args):
                    arity = ar
                    break
            if arity is None:
                for ar in node[2]:
                    params, rest, body = ar
                    if rest is not None and len(args) >= len(params):
                        arity = ar
                        break
            if arity is None:
                raise Throw("ArityError")
            params, rest, body = arity
            act = Activation()
            env = dict(f.env)
            if f.name:
                env[f.name] = Cell(f)
            for i, p in enumerate(params):
                env[p] = Cell(args[i])
            if rest is not None:
                extra = args[len(params):]
                env[rest] = Cell(("list", tuple(extra)) if extra else None)
            r = self.body(body, env, act)()
            if isinstance(r, RecurSig):
                args = list(r.args)
                if rest is not None:
                    # recur to a variadic arity passes the rest seq as the last argument
                    fixed = args[: len(params)]
                    restv = args[len(params)] if len(args) > len(params) else None
                    args = fixed + (list(restv[1]) if restv else [])
                continue
            return r

    def prim(self, op, a):
        if op in ("+", "-", "*", "<", "inc", "dec") and not all(isinstance(x, int) for x in a):
            # only reachable under a defect model that reorders a def and a typed read of the same Var
            raise Throw("TypeError")
        if op == "+":
            return a[0] + a[1]
        if op == "-":
            return a[0] - a[1]
        if op == "*":
            return a[0] * a[1]
        if op == "<":
            return a[0] < a[1]
        if op == "=":
            return a[0] == a[1] and type(a[0]) is type(a[1])
        if op == "inc":
            return a[0] + 1
        if op == "dec":
            return a[0] - 1
        if op == "nil?":
            return a[0] is None
        if op == "not":
            return a[0] is None or a[0] is False
        if op == "vector":
            return ("vec", tuple(a))
        if op == "conj":
            return ("vec", tuple(a[0][1]) + (a[1],))
        if op == "count":
            return len(a[0][1])
        if op == "identity" or op == "idf":
            return a[0]
        if op == "callall":
            return ("vec", tuple(self.call(f, []) for f in a[0][1]))
        raise ValueError(op)


# ----------------------------------------------------------------------------------------------------------------
# generator

LOCAL_NAMES = ["x", "y", "z", "a-b", "a_b", "x?", "x__Q__", "*y*", "class", "print", "print_", "λ", "if_test", "str", "map", "max", "lambda", "def_", "v1", "try_expr", "loop_result", "and", "q'", "<lt", "nil?x", "o'"]
MUNGE_GROUPS = [{"a-b", "a_b"}, {"x?", "x__Q__"}, {"print", "print_"}]
GLOBAL_NAMES = ["g1", "g-2", "g?3", "*g4*", "G5"]
CONSTS_ANY = [None, True, False, 0, 1, 2, "", "s", ("kw", "a"), ("kw", "b")]


class Gen:
    def __init__(self, rnd, p_mark=0.15, max_depth=5, allow_def=True, allow_icall=True):
        self.r = rnd
        self.p_mark = p_mark
        self.max_depth = max_depth
        self.mark = itertools.count(1)
        self.allow_def = allow_def
        self.allow_icall = allow_icall
        self.globals = {}  # name -> type (defined so far, straight-line)
        self.gtypes = {}
        self.budget = 60
        self.param_names = set()

    def name(self, env):
        return self.r.choice(LOCAL_NAMES)

    def param_name(self, taken):
        """fn parameters are emitted under their munged spelling (not gensym'd): two parameters in scope whose munged
        spellings coincide are the recorded munge-collision finding, exercised by a dedicated workload; the bulk
        generator keeps parameter names munge-distinct"""
        for _ in range(50):
            p = self.r.choice(LOCAL_NAMES)
            if p in taken or p == "o":
                continue
            if any(p in g and (g & (self.param_names | set(taken))) - {p} for g in MUNGE_GROUPS):
                continue
            return p
        return "p%d" % next(self.mark)

    def maybe_mark(self, e):
        if self.r.random() < self.p_mark and e[0] not in ("recur", "throw"):
            return ("t", next(self.mark), e)
        return e

    def program(self):
        self.globals = {}
        self.gtypes = {}  # name -> type for the whole program: every def of a name gives it a value of the same type
        self.param_names = set()
        forms = []
        env = {}
        if self.allow_def and self.r.random() < 0.3:
            for _ in range(self.r.randint(1, 2)):
                g = self.r.choice(GLOBAL_NAMES)
                ty = self.gtypes.get(g) or self.r.choice(["int", "any", "fn1"])
                forms.append(("def", g, self.expr(ty, env, 2)))
                self.globals[g] = ty
                self.gtypes[g] = ty
        forms.append(self.expr("any", env, self.max_depth))
        if len(forms) == 1:
            return forms[0]
        return ("do", forms)

    # types: int, any, vec, vecfn0, fn0, fn1, fn2
    def locals_of(self, env, ty):
        return [n for n, t in env.items() if t == ty]

    def expr(self, ty, env, d, tail=None):
        e = self._expr(ty, env, d, tail)
        return self.maybe_mark(e)

    def _expr(self, ty, env, d, tail=None):
        r = self.r
        self.budget -= 1
        leafy = d <= 0 or self.budget <= 0
        if not leafy and r.random() < 0.62:
            return self.compound(ty, env, d, tail)
        # leaves / simple calls
        ls = self.locals_of(env, ty)
        gs = [g for g, t in self.globals.items() if t == ty and g not in env]
        if ty == "int":
            c = r.random()
            if ls and c < 0.45:
                return ("local", r.choice(ls))
            if gs and c < 0.55:
                return ("global", r.choice(gs))
            if not leafy and c < 0.8:
                op = r.choice(["+", "-", "*", "inc", "dec"])
                n = 1 if op in ("inc", "dec") else 2
                return ("prim", op, [self.expr("int", env, d - 1) for _ in range(n)])
            if not leafy and c < 0.85 and self.locals_of(env, "vec"):
                return ("prim", "count", [("local", r.choice(self.locals_of(env, "vec")))])
            if not leafy and self.allow_icall and c < 0.9:
                return ("icall", r.choice(["field", "field2"]), [self.obj_expr(env, d - 1)])
            return ("const", r.choice([0, 1, 2, 3, -1, 10]))
        if ty == "any":
            c = r.random()
            if env and c < 0.3:
                return ("local", r.choice(list(env)))
            if gs and c < 0.36:
                return ("global", r.choice(gs))
            if c < 0.45:
                return self._expr("int", env, d)
            if not leafy and c < 0.55:
                return self._expr("vec", env, d)
            if not leafy and c < 0.62:
                op = r.choice(["<", "=", "nil?", "not"])
                if op in ("<", "="):
                    return ("prim", op, [self.expr("int", env, d - 1), self.expr("int", env, d - 1)])
                return ("prim", op, [self.expr("any", env, d - 1)])
            if not leafy and c < 0.7:
                return self.fn_literal(r.choice([0, 1, 2]), env, d - 1)
            if not leafy and c < 0.74:
                return ("list", [self.expr("any", env, d - 1) for _ in range(r.randint(0, 3))])
            if not leafy and c < 0.78:
                ks = r.sample([("kw", "a"), ("kw", "b"), 1, 2, "s"], r.randint(0, 2))
                return ("map", [(("const", kk), self.simple("any", env)) for kk in ks])
            if not leafy and c < 0.8:
                ks = r.sample([("kw", "a"), ("kw", "b"), 1, 2, "s"], r.randint(0, 3))
                return ("set", [("const", kk) for kk in ks])
            if not leafy and self.allow_icall and c < 0.815:
                return ("icall", r.choice(["new", "ctor"]), [self.expr("any", env, d - 1) for _ in range(r.randint(0, 3))])
            if c < 0.83:
                return r.choice([("quote", "(a b [1 2])", ("list", (("sym", "a"), ("sym", "b"), ("vec", (1, 2))))), ("quote", "x", ("sym", "x")), ("quote", "[if :k]", ("vec", (("sym", "if"), ("kw", "k"))))])
            if not leafy and self.allow_def and c < 0.85:
                # a def in value position (if branch, argument, last body form, ...): its value is the Var
                g = r.choice(GLOBAL_NAMES)
                if g not in env:
                    t = self.gtypes.get(g) or r.choice(["int", "any"])
                    self.gtypes[g] = t
                    return ("def", g, self.expr(t, env, d - 2))
            return ("const", r.choice(CONSTS_ANY))
        if ty == "vec":
            c = r.random()
            if ls and c < 0.4:
                return ("local", r.choice(ls))
            if not leafy and c < 0.6:
                return ("prim", "conj", [self.expr("vec", env, d - 1), self.expr("any", env, d - 1)])
            if not leafy and c < 0.7 and self.locals_of(env, "vecfn0"):
                return ("prim", "callall", [("local", r.choice(self.locals_of(env, "vecfn0")))])
            if not leafy and self.allow_icall and c < 0.8:
                kind = r.choice(["method", "dotform"])
                args = [("local", "o")] + [self.expr("any", env, d - 1) for _ in range(r.randint(0, 3))]
                return ("icall", kind, args)
            return ("vec", [self.expr("any", env, d - 1) for _ in range(0 if leafy else r.randint(0, 3))])
        if ty == "vecfn0":
            c = r.random()
            if ls and c < 0.5:
                return ("local", r.choice(ls))
            if not leafy and c < 0.85:
                return ("prim", "conj", [self.expr("vecfn0", env, d - 1), self.fn_literal(0, env, d - 1)])
            return ("vec", [])
        if ty.startswith("fn"):
            k = int(ty[2:])
            if ls and r.random() < 0.5:
                return ("local", r.choice(ls))
            if gs and r.random() < 0.3:
                return ("global", r.choice(gs))
            return self.fn_literal(k, env, d - 1)
        raise ValueError(ty)

    def obj_expr(self, env, d):
        """an expression whose value is the harness object o (a plain reference, or a compound form ending in one)"""
        r = self.r
        o = ("local", "o")
        c = r.random()
        if d <= 0 or c < 0.2:
            return o
        if c < 0.45:
            return ("t", next(self.mark), self.obj_expr(env, d - 1))  # a call node as target
        if c < 0.6:
            return ("do", [self.expr("any", env, d - 1), o])
        if c < 0.8:
            return ("if", self.expr("any", env, d - 1), o, o)
        nm = self.name(env)
        if nm == "o":
            return o
        return ("let", [(nm, self.expr("any", env, d - 1))], [o])

    def simple(self, ty, env):
        ls = self.locals_of(env, ty) if ty != "any" else list(env)
        if ls and self.r.random() < 0.5:
            return ("local", self.r.choice(ls))
        return ("const", self.r.choice([0, 1, 2] if ty == "int" else CONSTS_ANY))

    def fn_env(self, env):
        # catch-bound names are deleted by Python when the handler ends: never captured by closures
        return {n: t for n, t in env.items() if not t.startswith("catch:")}

    def fn_literal(self, k, env, d, name=None):
        r = self.r
        env0 = {n: (t[6:] if t.startswith("catch:") else t) for n, t in self.fn_env(env).items()}
        params = []
        e2 = dict(env0)
        for _ in range(k):
            p = self.param_name(params)
            params.append(p)
            e2[p] = "any"
            self.param_names.add(p)
        if name:
            e2[name] = "fn%d" % k
        nb = 1 if r.random() < 0.7 else 2
        shape = r.random()
        if shape < 0.1:
            # variadic arity selected by the k-argument calls: j fixed parameters, the other k - j arguments arrive as the rest seq
            j = r.randint(0, k)
            rest = self.param_name(params)
            self.param_names.add(rest)
            e3 = {n: t for n, t in e2.items() if n not in params[j:]}
            e3[rest] = "any"
            body = [self.expr("any", e3, d - 1) for _ in range(nb)]
            return ("fn", name, [(params[:j], rest, body)])
        body = [self.expr("any", e2, d - 1) for _ in range(nb)]
        arities = [(params, None, body)]
        if shape < 0.2 and k >= 1:
            # two live arities: the k-argument calls select the first, its body may call the (k-1)-argument arity through the fn's own name
            own = name or "self-fn"
            e4 = {n: t for n, t in env0.items()}
            short = params[:-1]
            for p in short:
                e4[p] = "any"
            arities.append((short, None, [self.expr("any", e4, d - 2)]))
            arities[0] = (params, None, body + [("call", ("local", own), [("local", p) for p in short])])
            e2[own] = "fn%d" % (k - 1)
            return ("fn", own, arities)
        if r.random() < 0.15:
            # add a second arity that is never selected by the calls we generate (k+1 fixed params)
            extra = list(params) + ["zz"]
            arities.append((extra, None, [("const", ("kw", "other-arity"))]))
        return ("fn", name, arities)

    def compound(self, ty, env, d, tail=None):
        r = self.r
        c = r.random()
        if c < 0.2:
            test = self.expr("any", env, d - 1)
            els = self.expr(ty, env, d - 1, tail) if (ty != "any" or r.random() < 0.85) else None
            return ("if", test, self.expr(ty, env, d - 1, tail), els)
        if c < 0.3:
            n = r.randint(1, 3)
            return ("do", [self.expr("any", env, d - 1) for _ in range(n - 1)] + [self.expr(ty, env, d - 1, tail)])
        if c < 0.52:
            e2 = dict(env)
            bs = []
            for _ in range(r.randint(1, 3)):
                t = r.choice(["int", "any", "vec", "fn0", "fn1", "int", "vecfn0"])
                nm = self.name(e2)
                if nm == "o":
                    continue
                bs.append((nm, self.expr(t, e2, d - 1)))
                e2[nm] = t
            nb = 1 if r.random() < 0.7 else 2
            return ("let", bs, [self.expr("any", e2, d - 1) for _ in range(nb - 1)] + [self.expr(ty, e2, d - 1, tail)])
        if c < 0.68:
            # call of a function value: local fn, immediate fn literal or global fn
            k = r.choice([0, 1, 1, 2])
            fty = "fn%d" % k
            f = self.expr(fty, env, d - 1)
            call = ("call", f, [self.expr("any", env, d - 1) for _ in range(k)])
            if ty == "any":
                return call
            # need a specific type: wrap so that the typed value is produced regardless of the call result
            return ("do", [call, self.expr(ty, env, d - 1, tail)])
        if c < 0.74:
            return self.fnloop(ty, env, d)
        if c < 0.8:
            return self.loop(ty, env, d)
        if c < 0.9:
            return self.try_(ty, env, d)
        if c < 0.94:
            return self.letfn(ty, env, d)
        if c < 0.97 and ty == "any":
            return ("throw", r.choice(["ValueError", "KeyError", "ExceptionInfo"]), "m")
        if self.allow_def and c < 0.985:
            # a def wherever the form sits (fn body, branch, loop): what follows it in the same do reads the new value
            g = r.choice(GLOBAL_NAMES)
            if g not in env:
                had = g in self.globals
                t = self.gtypes.get(g) or r.choice(["int", "any"])
                self.gtypes[g] = t
                d_expr = ("def", g, self.expr(t, env, d - 2))
                self.globals[g] = t
                cont = self.expr(ty, env, d - 1, tail)
                if not had:
                    del self.globals[g]  # code generated later must not rely on a def that may not have run
                return ("do", [d_expr, cont])
        return self._expr(ty, env, 0)

    def loop(self, ty, env, d, force_acc=False):
        r = self.r
        e2 = dict(env)
        i = self.name(e2)
        e2[i] = "int"
        binds = [(i, ("const", 0))]
        others = []
        for _ in range(r.randint(0, 2)):
            t = r.choice(["int", "vec", "vecfn0", "any"])
            nm = self.name(e2)
            if nm == i or nm in [o[0] for o in others] or nm == "o":
                continue
            binds.append((nm, self.expr(t, e2, d - 2)))
            e2[nm] = t
            others.append((nm, t))
        acc = None
        if force_acc or r.random() < 0.35:
            # closures created in each iteration, collected, and called after the loop has finished
            acc = self.name(e2)
            if acc == i or acc in [o[0] for o in others] or acc == "o":
                acc = None
            else:
                binds.append((acc, ("vec", [])))
                e2[acc] = "vecfn0"
                others.append((acc, "vecfn0"))
        n_iter = r.randint(2, 3) if force_acc else r.randint(0, 3)
        e3 = dict(e2)
        pre = []
        if r.random() < 0.4:
            j = self.name(e3)
            if j not in e2 and j != "o":
                pre = [(j, self.expr("any", e3, d - 2))]
                e3[j] = "any"
        rec = ("recur", [("prim", "inc", [("local", i)])] + [self.expr(t, e3, d - 2) for _, t in others])
        res = self.expr(ty, e3, d - 2)
        if acc is not None and ty in ("any", "vec") and (force_acc or r.random() < 0.8):
            res = ("prim", "callall", [("local", acc)])
        if r.random() < 0.3:
            rec_branch = ("do", [self.expr("any", e3, d - 2), rec])
        else:
            rec_branch = rec
        iff = ("if", ("prim", "<", [("local", i), ("const", n_iter)]), rec_branch, res)
        body = [("let", pre, [iff])] if pre else [iff]
        if r.random() < 0.2:
            body = [self.expr("any", e2, d - 2)] + body
        return ("loop", binds, body)

    def fnloop(self, ty, env, d):
        """a function that loops through fn-level recur: ((fn* [n a ..] (if (< n K) (recur (inc n) e ..) result)) 0 init ..)"""
        r = self.r
        e0 = {nm: (t[6:] if t.startswith("catch:") else t) for nm, t in self.fn_env(env).items()}
        n = self.param_name([])
        params = [n]
        e2 = dict(e0)
        e2[n] = "int"
        self.param_names.add(n)
        others = []
        for _ in range(r.randint(0, 2)):
            p = self.param_name(params)
            params.append(p)
            self.param_names.add(p)
            t = r.choice(["int", "any", "vec"])
            e2[p] = t
            others.append((p, t))
        k = r.randint(0, 3)
        rec = ("recur", [("prim", "inc", [("local", n)])] + [self.expr(t, e2, d - 2) for _, t in others])
        res = self.expr(ty, e2, d - 2)
        shape = r.random()
        if shape < 0.5:
            body = [("if", ("prim", "<", [("local", n), ("const", k)]), rec, res)]
        elif shape < 0.75:
            body = [("if", ("prim", "<", [("local", n), ("const", k)]), ("do", [self.expr("any", e2, d - 2), rec]), res)]
        else:
            body = [("if", ("prim", "<", [("local", n), ("const", k)]), ("let", [("tmp'", self.expr("any", e2, d - 2))], [rec]), res)]
        if r.random() < 0.2:
            body = [self.expr("any", e2, d - 2)] + body
        f = ("fn", r.choice([None, "self-fn"]), [(params, None, body)])
        inits = [("const", 0)] + [self.expr(t, env, d - 2) for _, t in others]
        return ("call", f, inits)

    def try_(self, ty, env, d):
        r = self.r
        body = [self.expr("any", env, d - 1) for _ in range(r.randint(0, 1))] + [self.expr(ty, env, d - 1)]
        if r.random() < 0.6:
            body.insert(r.randint(0, len(body) - 1) if len(body) > 1 else 0, ("if", self.expr("any", env, d - 2), ("throw", r.choice(["ValueError", "KeyError", "ExceptionInfo"]), "m"), ("const", None)))
        catches = []
        used = set()
        for _ in range(r.randint(0, 2)):
            cls = r.choice(["ValueError", "KeyError", "ExceptionInfo", "Exception"])
            if cls in used or "Exception" in used:
                continue
            used.add(cls)
            nm = self.name(env)
            if nm == "o":
                continue
            e2 = dict(env)
            e2[nm] = "catch:any"
            catches.append((cls, nm, [self.expr(ty, self.catch_env(e2), d - 1)]))
        fin = None
        if r.random() < 0.5 or not catches:
            fin = [self.expr("any", env, d - 2)]
        return ("try", body, catches, fin)

    def catch_env(self, env):
        return env

    def letfn(self, ty, env, d):
        r = self.r
        if r.random() < 0.4:
            # forward reference: the first function calls a sibling bound after it; bodies close over the surrounding locals
            f1, f2 = "fwd-a", "fwd-b"
            x, y = self.param_name([]), self.param_name([])
            self.param_names.update((x, y))
            eo = {nm: (t[6:] if t.startswith("catch:") else t) for nm, t in self.fn_env(env).items()}
            e_b = dict(eo)
            e_b.update({f1: "fnx", f2: "fnx", y: "any"})
            body_b = self.expr("any", e_b, d - 2)
            body_a = self.maybe_mark(("call", ("local", f2), [("local", x)]))
            binds = [(f1, ("fn", f1, [([x], None, [body_a])])), (f2, ("fn", f2, [([y], None, [body_b])]))]
            e2 = dict(env)
            e2.update({f1: "fnx", f2: "fnx"})
            first = ("call", ("local", r.choice([f1, f2])), [self.expr("any", env, d - 2)])
            if ty == "any" and r.random() < 0.5:
                return ("letfn", binds, [first])
            return ("letfn", binds, [first, self.expr(ty, e2, d - 1)])
        e2 = dict(env)
        ev, od = "ev?", "od!"
        e2[ev] = "fnint"
        e2[od] = "fnint"
        n = "n*"
        mk = lambda me, other, base: ("fn", me, [([n], None, [("if", ("prim", "=", [("local", n), ("const", 0)]), ("const", base), self.maybe_mark(("call", ("local", other), [("prim", "dec", [("local", n)])])))])])
        binds = [(ev, mk(ev, od, True)), (od, mk(od, ev, False))]
        first = ("call", ("local", r.choice([ev, od])), [("const", r.randint(0, 4))])
        if ty == "any" and r.random() < 0.5:
            return ("letfn", binds, [first])
        return ("letfn", binds, [first, self.expr(ty, e2, d - 1)])


# local lookups of type "catch:any" behave as "any"
_orig_locals_of = Gen.locals_of


def _locals_of(self, env, ty):
    return [n for n, t in env.items() if t == ty or (ty == "any" and t == "catch:any")]


Gen.locals_of = _locals_of

# ----------------------------------------------------------------------------------------------------------------
# contexts (embedding of a program at a syntactic position): done at the AST level so the evaluator gives the expectation

CONTEXTS = ["top", "fnbody", "stmt", "arg", "letinit", "iftest"]


def embed(prog, ctx):
    if ctx == "top":
        return prog
    # defs must stay straight-line: a leading (do (def ..) .. body) keeps its defs outside the embedding
    if prog[0] == "do" and prog[1] and prog[1][0][0] == "def":
        defs = [f for f in prog[1][:-1]]
        return ("do", defs + [embed(prog[1][-1], ctx)])
    if ctx == "fnbody":
        return ("call", ("fn", None, [([], None, [prog])]), [])
    if ctx == "stmt":
        return ("do", [prog, ("const", ("kw", "after-stmt"))])
    if ctx == "arg":
        return ("prim", "idf", [prog])
    if ctx == "letinit":
        return ("let", [("v1", prog)], [("local", "v1")])
    if ctx == "iftest":
        return ("if", prog, ("const", ("kw", "T")), ("const", ("kw", "F")))
    raise ValueError(ctx)


# ----------------------------------------------------------------------------------------------------------------
# exhaustive small programs


def enumerate_small(max_nodes):
    """all programs with <= max_nodes nodes over a small alphabet, each sub-expression wrapped in a tracer.
    locals x (int 1) and y (nil) are bound by an outer let."""
    leaves = [("const", None), ("const", False), ("const", 0), ("local", "x"), ("local", "y")]
    cache = {}

    def gen(n):
        if n in cache:
            return cache[n]
        out = []
        if n == 1:
            out = list(leaves)
        else:
            # unary wrappers: (do e), (idf e), [e], ((fn* [p] p) e)
            for e in gen(n - 1):
                out.append(("vec", [e]))
                out.append(("prim", "not", [e]))
                out.append(("call", ("fn", None, [(["p"], None, [("local", "p")])]), [e]))
                out.append(("let", [("x", e)], [("local", "x")]))
                out.append(("try", [e], [], [("t", 0, ("const", 0))]))
            # binary: (do a b), [a b], (if a b), (let [y a] b)
            for i in range(1, n - 1):
                for a in gen(i):
                    for c in gen(n - 1 - i):
                        out.append(("do", [a, c]))
                        out.append(("vec", [a, c]))
                        out.append(("if", a, c, None))
                        out.append(("let", [("y", a)], [c]))
            # ternary if
            for i in range(1, n - 2):
                for j in range(1, n - 1 - i):
                    kk = n - 1 - i - j
                    if kk < 1:
                        continue
                    for a in gen(i):
                        for c in gen(j):
                            for e in gen(kk):
                                out.append(("if", a, c, e))
        cache[n] = out
        return out

    res = []
    for n in range(1, max_nodes + 1):
        res.extend(gen(n))
    return res


def mark_all(n, counter=None):
    """wrap every non-leaf-binding sub-expression in a tracer"""
    counter = counter or itertools.count(1)
    k = n[0]
    if k in ("const", "local", "global", "quote"):
        return ("t", next(counter), n)
    if k == "t":
        return n
    if k == "vec":
        m = ("vec", [mark_all(e, counter) for e in n[1]])
    elif k == "prim":
        m = ("prim", n[1], [mark_all(e, counter) for e in n[2]])
    elif k == "call":
        m = ("call", n[1], [mark_all(e, counter) for e in n[2]])
    elif k == "let":
        m = ("let", [(nm, mark_all(e, counter)) for nm, e in n[1]], [mark_all(e, counter) for e in n[2]])
    elif k == "try":
        m = ("try", [mark_all(e, counter) for e in n[1]], n[2], n[3])
    elif k == "do":
        m = ("do", [mark_all(e, counter) for e in n[1]])
    elif k == "if":
        m = ("if", mark_all(n[1], counter), mark_all(n[2], counter), None if n[3] is None else mark_all(n[3], counter))
    else:
        m = n
    return ("t", next(counter), m)
