"""Invariant at a hook (C04): no public method of a persistent collection ever changes its receiver.

install() wraps every method defined on PersistentVector / PersistentMap / PersistentSet / PersistentList / PersistentQueue; the receiver is
snapshotted before the call and compared after it (identity of the backing structure and of the metadata slot, plus the contents for
small collections). Violations are appended to hook["viol"] as (class, method, args-repr); hook["calls"] counts evaluations.
Used by the generated histories of the check itself and, through vf/pytest_c04.py, while the repository's own tests run.
"""
from __future__ import annotations

SKIP = ("__init__", "__new__", "__class_getitem__", "__init_subclass__", "__hash__", "__iter__", "__len__", "__eq__", "__getitem__", "__contains__", "__bool__", "__call__")

_HOOK = None


def install():
    global _HOOK
    if _HOOK is not None:
        return _HOOK
    from basilisp.lang import list as llist
    from basilisp.lang import map as lmap
    from basilisp.lang import queue as lqueue
    from basilisp.lang import set as lset
    from basilisp.lang import vector as lvec

    hook = {"calls": 0, "viol": [], "context": None}

    def snapshot(o):
        try:
            if isinstance(o, llist.PersistentList):  # pyrsistent plist: len() is O(n); its cells are immutable
                return (id(o._inner), id(o._meta))
            n = len(o._inner)
            if n > 12:
                return (id(o._inner), id(o._meta), n)
            return (id(o._inner), id(o._meta), tuple(o._inner.items()) if isinstance(o, (lmap.PersistentMap, lset.PersistentSet)) else tuple(o._inner))
        except Exception:
            return None

    def wrap(cls, name, fn):
        def w(self, *a, **k):
            before = snapshot(self)
            try:
                return fn(self, *a, **k)
            finally:
                hook["calls"] += 1
                if before is not None and snapshot(self) != before:
                    hook["viol"].append((cls.__name__, name, repr(a)[:80], hook["context"]))

        w.__name__ = getattr(fn, "__name__", name)
        w.__wrapped__ = fn
        return w

    for cls in (lvec.PersistentVector, lmap.PersistentMap, lset.PersistentSet, llist.PersistentList, lqueue.PersistentQueue):
        for name, fn in list(vars(cls).items()):
            if callable(fn) and not isinstance(fn, (staticmethod, classmethod, property, type)) and name not in SKIP:
                try:
                    setattr(cls, name, wrap(cls, name, fn))
                except (AttributeError, TypeError):
                    pass
    _HOOK = hook
    return hook
