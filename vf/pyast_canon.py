"""Independent implementation of exactly the rewrites the Python-AST optimization pass is allowed to make (C15).

canon(tree, ops=True) returns a normal form: two module bodies are related by allowed rewrites only iff
dump(canon(before)) == dump(canon(after)). Doing less than allowed is fine (canon finishes the job on both sides); anything else
leaves a difference, which `first_difference` locates.

Allowed rewrites (from the property statement):
  * drop a statement that is a bare constant or name
  * drop statements made unreachable by return / raise / break / continue
  * an `if` whose branches are both empty keeps only its test's evaluation (and disappears if the test is effect free);
    an `if` with an empty body becomes `if not test: orelse`
  * de-duplicate global declarations (per function scope, keeping the textually first declaration that survives dead-code removal)
  * operator.X(a, b) -> native operator with the same operands in the same order and the same meaning
    (`contains(a, b)` -> `b in a` only when the swap of evaluation order cannot be observed: one operand is a name or constant)
"""
from __future__ import annotations

import ast
import copy

OPERATOR_ALIAS_PREFIX = "operator"

BINOPS = {"add": ast.Add, "and_": ast.BitAnd, "floordiv": ast.FloorDiv, "lshift": ast.LShift, "mod": ast.Mod, "mul": ast.Mult, "matmul": ast.MatMult, "or_": ast.BitOr, "pow": ast.Pow,
          "rshift": ast.RShift, "sub": ast.Sub, "truediv": ast.Div, "xor": ast.BitXor}
UNARYOPS = {"not_": ast.Not, "inv": ast.Invert, "invert": ast.Invert}
CMPOPS = {"lt": ast.Lt, "le": ast.LtE, "eq": ast.Eq, "ne": ast.NotEq, "gt": ast.Gt, "ge": ast.GtE, "is_": ast.Is, "is_not": ast.IsNot}


def effect_free(e):
    if isinstance(e, (ast.Name, ast.Constant)):
        return True
    if isinstance(e, ast.UnaryOp) and isinstance(e.op, ast.Not):
        return effect_free(e.operand)
    if isinstance(e, ast.BoolOp):
        return all(effect_free(v) for v in e.values)
    if isinstance(e, ast.Compare) and all(isinstance(o, (ast.Is, ast.IsNot)) for o in e.ops):
        return effect_free(e.left) and all(effect_free(c) for c in e.comparators)
    return False


def simple(e):
    return isinstance(e, (ast.Name, ast.Constant))


def is_operator_attr(fn, alias):
    return isinstance(fn, ast.Attribute) and isinstance(fn.value, ast.Name) and fn.value.id == alias


class Canon(ast.NodeTransformer):
    def __init__(self, alias, ops=True):
        self.alias = alias
        self.ops = ops
        self._seen = [set()]

    # ---- statements ---------------------------------------------------------------------------------------------------
    def _body(self, stmts):
        out = []
        for s in stmts:
            r = self.visit(s)
            if r is None:
                continue
            rs = r if isinstance(r, list) else [r]
            for x in rs:
                out.append(x)
                if isinstance(x, (ast.Return, ast.Raise, ast.Break, ast.Continue)):
                    return out
        return out

    # global declarations: a declaration holds for the whole function (or module / class) scope it appears in, so a later one for the
    # same name in the same scope is redundant wherever it is nested; a nested function is a scope of its own. Statements are visited
    # in textual order and unreachable ones are never visited, so a declaration that only occurs in dropped code does not count.
    def _scope(self, fn):
        self._seen.append(set())
        try:
            return fn()
        finally:
            self._seen.pop()

    def visit_Global(self, node):
        names = [n for n in node.names if n not in self._seen[-1]]
        self._seen[-1].update(names)
        return ast.Global(names=sorted(names)) if names else None

    def visit_Module(self, node):
        return ast.Module(body=self._scope(lambda: self._body(node.body)), type_ignores=[])

    def visit_FunctionDef(self, node):
        new = copy.copy(node)
        new.args = self.generic_visit(copy.deepcopy(node.args))
        new.decorator_list = [self.visit(d) for d in node.decorator_list]
        new.returns = self.visit(node.returns) if node.returns is not None else None
        new.body = self._scope(lambda: self._body(node.body)) or [ast.Pass()]
        return new

    visit_AsyncFunctionDef = visit_FunctionDef

    def visit_ClassDef(self, node):
        new = copy.copy(node)
        new.bases = [self.visit(x) for x in node.bases]
        new.keywords = [self.generic_visit(copy.deepcopy(k)) for k in node.keywords]
        new.decorator_list = [self.visit(d) for d in node.decorator_list]
        new.body = self._scope(lambda: self._body(node.body)) or [ast.Pass()]
        return new

    def visit_Expr(self, node):
        v = self.visit(node.value)
        if isinstance(v, (ast.Constant, ast.Name)):
            return None
        if isinstance(v, ast.stmt):
            return v  # delitem became a Delete statement
        return ast.Expr(value=v)

    def visit_If(self, node):
        test = self.visit(node.test)
        body = self._body(node.body)
        orelse = self._body(node.orelse)
        if body:
            return ast.If(test=test, body=body, orelse=orelse)
        if orelse:
            return ast.If(test=ast.UnaryOp(op=ast.Not(), operand=test), body=orelse, orelse=[])
        if effect_free(test):
            return None
        return ast.Expr(value=test)

    def visit_While(self, node):
        return ast.While(test=self.visit(node.test), body=self._body(node.body) or [ast.Pass()], orelse=self._body(node.orelse))

    def visit_For(self, node):
        return ast.For(target=self.visit(node.target), iter=self.visit(node.iter), body=self._body(node.body) or [ast.Pass()], orelse=self._body(node.orelse))

    def visit_With(self, node):
        return ast.With(items=[self.generic_visit(copy.deepcopy(i)) for i in node.items], body=self._body(node.body) or [ast.Pass()])

    def visit_Try(self, node):
        body = self._body(node.body) or [ast.Pass()]  # textual order: body, handlers, else, finally
        handlers = []
        for h in node.handlers:
            handlers.append(ast.ExceptHandler(type=self.visit(h.type) if h.type is not None else None, name=h.name, body=self._body(h.body)))
        orelse = self._body(node.orelse)
        final = self._body(node.finalbody)
        final = [s for s in final if not isinstance(s, ast.Pass)]
        if not final and not handlers:
            final = [ast.Pass()]  # a try needs a handler or a non-empty finally to be valid Python
        for h in handlers:
            h.body = h.body or [ast.Pass()]
        return ast.Try(body=body, handlers=handlers, orelse=orelse, finalbody=final)

    def visit_Pass(self, node):
        return None

    def generic_visit(self, node):
        node = super().generic_visit(node)
        # statement lists that became empty keep the tree valid with a single pass (applied to both sides of a comparison)
        for f in ("body",):
            if isinstance(node, (ast.While, ast.For, ast.With, ast.FunctionDef, ast.AsyncFunctionDef, ast.ClassDef, ast.ExceptHandler)) and getattr(node, f, None) == []:
                setattr(node, f, [ast.Pass()])
        return node

    # ---- operator module calls -------------------------------------------------------------------------------------------
    def visit_Call(self, node):
        new = self.generic_visit(copy.copy(node))
        if not self.ops or not isinstance(new, ast.Call):
            return new
        fn = new.func
        if not is_operator_attr(fn, self.alias) or new.keywords:
            return new
        a = new.args
        if fn.attr in BINOPS and len(a) == 2:
            return ast.BinOp(a[0], BINOPS[fn.attr](), a[1])
        if fn.attr in UNARYOPS and len(a) == 1:
            return ast.UnaryOp(UNARYOPS[fn.attr](), a[0])
        if fn.attr in CMPOPS and len(a) == 2:
            return ast.Compare(a[0], [CMPOPS[fn.attr]()], [a[1]])
        if fn.attr == "contains" and len(a) == 2 and (simple(a[0]) or simple(a[1])):
            return ast.Compare(a[1], [ast.In()], [a[0]])
        if fn.attr == "getitem" and len(a) == 2:
            return ast.Subscript(value=a[0], slice=a[1], ctx=ast.Load())
        if fn.attr == "delitem" and len(a) == 2:
            return ast.Delete(targets=[ast.Subscript(value=a[0], slice=a[1], ctx=ast.Del())])
        return new


def canon(tree, alias, ops=True):
    t = Canon(alias, ops).visit(copy.deepcopy(tree))
    return t


def dump(t):
    return ast.dump(t, annotate_fields=True, include_attributes=False)


def sig(n):
    if n is None:
        return "None"
    s = type(n).__name__
    if isinstance(n, ast.Compare):
        s += "(" + ",".join(type(o).__name__ for o in n.ops) + ")"
    elif isinstance(n, (ast.BinOp, ast.UnaryOp, ast.BoolOp)):
        s += "(" + type(n.op).__name__ + ")"
    elif isinstance(n, ast.Call) and isinstance(n.func, ast.Attribute) and isinstance(n.func.value, ast.Name):
        s += "(" + n.func.value.id.split("_")[0] + "." + n.func.attr + ")"
    elif isinstance(n, ast.Expr):
        s += "(" + type(n.value).__name__ + ")"
    return s


def first_difference(a, b, path="module"):
    """(path, signature-of-a, signature-of-b, unparse a, unparse b) of the first differing subtree"""
    if type(a) is not type(b):
        return (path, sig(a), sig(b), _u(a), _u(b))
    if isinstance(a, ast.AST):
        for f in a._fields:
            if f in ("lineno", "col_offset", "end_lineno", "end_col_offset", "ctx", "type_comment"):
                continue
            va, vb = getattr(a, f, None), getattr(b, f, None)
            if isinstance(va, list) or isinstance(vb, list):
                va, vb = va or [], vb or []
                for i in range(max(len(va), len(vb))):
                    if i >= len(va):
                        return (path + "." + f, "missing", sig(vb[i]), "", _u(vb[i]))
                    if i >= len(vb):
                        return (path + "." + f, sig(va[i]), "missing", _u(va[i]), "")
                    d = first_difference(va[i], vb[i], path + "." + f)
                    if d:
                        # prefer the statement-level description when the statements themselves are of different kinds
                        return d
            elif isinstance(va, ast.AST) or isinstance(vb, ast.AST):
                d = first_difference(va, vb, path + "." + f)
                if d:
                    if d[1] == d[2] and isinstance(a, (ast.Compare, ast.BinOp, ast.UnaryOp, ast.Call)):
                        return (path, sig(a), sig(b), _u(a), _u(b))
                    return d
            elif va != vb:
                return (path + "." + f, sig(a) + ":" + repr(va)[:30], sig(b) + ":" + repr(vb)[:30], _u(a), _u(b))
        return None
    return None if a == b else (path, repr(a)[:30], repr(b)[:30], "", "")


def _u(n):
    try:
        return ast.unparse(n)[:200] if isinstance(n, ast.AST) else repr(n)[:100]
    except Exception:
        return "<unparse failed>"
