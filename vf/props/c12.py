"""C12 — atom updates are atomic under every thread schedule and always terminate.

Monitors
  * linearizability of recorded call/return histories of swap!/reset!/swap-vals!/reset-vals!/compare-and-set!/deref on one atom
    (2-3 real threads serialised by the cooperative scheduler of vf/sched.py) against a sequential atom model; every update
    installs a unique token so values are unambiguous;
  * validator: a rejected value is never observable; watches: every (old, new) pair is a transition of a valid linearization;
  * bounded progress: CAS attempts per operation <= 1 + installs by other threads inside its window (1 when it ran alone);
  * termination for every stored value (NaN, collections containing NaN, objects with pathological __eq__): at most 3 CAS
    attempts for a single-threaded operation (counted, not timed).
"""
from __future__ import annotations

import itertools
import random
import time


def plan(tier, seed):
    q = tier == "quick"
    shards = []
    for i in range(6 if q else 12):
        shards.append({"kind": "random", "n": 400 if q else 6000, "threads": 2 + (i % 2)})
    for i in range(4 if q else 4):
        shards.append({"kind": "bounded", "scenario": i, "max_preemptions": 2, "max_schedules": 1500 if q else 40000, "budget_s": 40 if q else 900})
    shards.append({"kind": "termination"})
    shards.append({"kind": "stress", "n": 30 if q else 400})
    return {
        "level": "exploration",
        "rule": "schedules of 2-3 threads x 1-3 atom operations (swap!/reset!/swap-vals!/reset-vals!/compare-and-set!/deref, core functions and Atom methods; pure, slow and throwing "
        "update functions; validator; watches) at line granularity: seeded random walks, plus depth-first enumeration of all schedules with <= 2 preemptions for 4 fixed scenarios; "
        "free-running stress with a 1 microsecond switch interval; single-threaded termination over a universe of values not equal to themselves. distinct = distinct (scenario, interleaving as the "
        "sequence of (thread, code, line)); non-trivial = schedules with at least one context switch between two operations' call and return.",
        "shards": shards,
        "min_evaluations": 300,
        "watchdog_s": 900 if q else 3400,
        "assumptions": ["preemption matters only at statement boundaries of the instrumented code objects (Atom methods, RefBase methods, core swap!/reset!/... functions, harness update functions)",
                        "watch notification order across threads is not constrained", "compare-and-set! may compare by identity or by equality"],
    }


# ---- sequential model and linearizability search ----------------------------------------------------------------------------
def model_apply(state, op):
    """returns (new_state, expected_result) ; result None means 'any' """
    k = op["op"]
    if k in ("swap", "pyswap", "swap-slow"):
        new = state + (op["tok"],)
        return new, ("val", new)
    if k == "swap-vals":
        new = state + (op["tok"],)
        return new, ("val", (new, state))
    if k in ("reset", "pyreset"):
        new = (op["tok"],)
        return new, ("val", new)
    if k == "reset-vals":
        new = (op["tok"],)
        return new, ("val", (new, state))
    if k == "cas":
        if state == tuple(op["old"]):
            return tuple(op["old"]) + (op["tok"],), ("val", True)
        return state, ("val", False)
    if k == "deref":
        return state, ("val", state)
    if k in ("swap-throw", "swap-bad"):
        return state, ("exc",)
    raise KeyError(k)


def linearizations(hist, init=()):
    """all linearizations (as lists of op indices with the state sequence) of a history of completed ops.
    hist: list of dicts with 'call', 'ret' (logical times) and 'res'."""
    n = len(hist)
    out = []

    def rec(done, order, state, states):
        if len(order) == n:
            out.append((list(order), list(states)))
            return len(out) >= 50
        # minimal ops: not yet done, and no other undone op returned before its call
        for i in range(n):
            if i in done:
                continue
            if any(j not in done and j != i and hist[j]["ret"] < hist[i]["call"] for j in range(n)):
                continue
            new, exp = model_apply(state, hist[i])
            got = hist[i]["res"]
            if exp[0] == "exc":
                if got[0] != "exc":
                    continue
            else:
                if got[0] != "val" or got[1] != exp[1]:
                    continue
            done.add(i)
            order.append(i)
            states.append(new)
            stop = rec(done, order, new, states)
            states.pop()
            order.pop()
            done.discard(i)
            if stop:
                return True
        return False

    rec(set(), [], init, [init])
    return out


def worker(spec, out):
    from vf import boot, sched

    b = boot.init()
    rnd = random.Random(spec["seed"])
    import basilisp.lang.atom as atom_mod
    import basilisp.lang.reference as ref_mod

    proxy = sched.ThreadingProxy()
    atom_mod.threading = proxy
    Atom = atom_mod.Atom
    C = b.core
    V = b.vec.vector
    K = b.kw.keyword

    def tup(v):
        """vector of tokens -> tuple; nested [new old] pairs handled by callers"""
        return tuple(v) if v is not None else None

    # harness-side update functions (their lines are yield points too)
    def slow_conj(v, tok):
        x = v
        y = tok
        r = x.cons(y)
        return r

    def throwing(v, tok):
        raise ValueError("update function failed")

    cas_calls = {}
    orig_cas = Atom._compare_and_set

    def counting_cas(self, old, new):
        ident = sched._real_threading.get_ident()
        cas_calls[ident] = cas_calls.get(ident, 0) + 1
        lim = budget.get("limit")
        if lim is not None and cas_calls[ident] > lim:
            raise RetryBudget()
        return orig_cas(self, old, new)

    class RetryBudget(BaseException):
        pass

    budget = {}
    Atom._compare_and_set = counting_cas

    core_fns = [C(n) for n in ("swap!", "reset!", "swap-vals!", "reset-vals!", "compare-and-set!", "deref")]
    CODES = sched.code_objects(orig_cas, Atom.compare_and_set, Atom.deref, Atom.reset, Atom.swap, ref_mod.RefBase._validate, ref_mod.RefBase._notify_watches,
                               ref_mod.RefBase.add_watch, slow_conj, throwing, *core_fns)

    def do_op(a, op, seen):
        k = op["op"]
        tok = op.get("tok")
        if k == "swap":
            return ("val", tup(C("swap!")(a, C("conj"), tok)))
        if k == "swap-slow":
            return ("val", tup(C("swap!")(a, slow_conj, tok)))
        if k == "pyswap":
            return ("val", tup(a.swap(slow_conj, tok)))
        if k == "swap-vals":
            r = C("swap-vals!")(a, C("conj"), tok)
            return ("val", (tup(r[0]), tup(r[1])))
        if k == "reset":
            return ("val", tup(C("reset!")(a, V([tok]))))
        if k == "pyreset":
            return ("val", tup(a.reset(V([tok]))))
        if k == "reset-vals":
            r = C("reset-vals!")(a, V([tok]))
            return ("val", (tup(r[0]), tup(r[1])))
        if k == "cas":
            old = seen.get("last")
            if old is None:
                old = a.deref()
            op["old"] = list(old)
            return ("val", bool(C("compare-and-set!")(a, old, old.cons(tok))))
        if k == "deref":
            v = C("deref")(a)
            seen["last"] = v
            return ("val", tup(v))
        if k == "swap-throw":
            C("swap!")(a, throwing, tok)
            return ("val", "no-exception")
        if k == "swap-bad":
            C("swap!")(a, C("conj"), tok)
            return ("val", "no-exception")
        raise KeyError(k)

    def run_scenario(thread_ops, chooser, with_validator=True, with_watch=True):
        """thread_ops: list (per thread) of op dicts. Returns (sched, history, watches, atom)"""
        clock = itertools.count()
        a = Atom(V([]))
        watches = []
        if with_validator:
            a.set_validator(lambda v: not any(isinstance(x, str) and x.startswith("BAD") for x in v))
        if with_watch:
            a.add_watch(K("w"), lambda key, ref, old, new: watches.append((tup(old), tup(new))))
        hist = []
        cas_calls.clear()
        installs = []

        def mk(ti, ops):
            def fn():
                seen = {}
                for op in ops:
                    rec = dict(op)
                    rec["thread"] = ti
                    ident = sched._real_threading.get_ident()
                    c0 = cas_calls.get(ident, 0)
                    rec["call"] = next(clock)
                    try:
                        rec["res"] = do_op(a, rec, seen)
                    except RetryBudget:
                        rec["res"] = ("budget",)
                    except Exception as e:
                        rec["res"] = ("exc", type(e).__name__)
                    rec["ret"] = next(clock)
                    rec["cas_attempts"] = cas_calls.get(ident, 0) - c0
                    hist.append(rec)
            return fn

        s = sched.Sched([mk(i, ops) for i, ops in enumerate(thread_ops)], CODES, chooser, max_steps=6000)
        s.run()
        return s, hist, watches, a

    def judge(s, hist, watches, a, case, label):
        """all oracles over one finished schedule"""
        nsw = sum(1 for i in range(1, len(s.trace)) if s.trace[i][0] != s.trace[i - 1][0])
        out.ev(("sched", label, hash(s.schedule_id())) if nsw else None)
        out.count("context_switches", nsw)
        if s.stuck:
            if s.stuck["reason"].startswith("deadlock") or s.stuck["reason"].startswith("step bound"):
                out.violation(f"C12/progress/{'deadlock' if s.stuck['reason'].startswith('deadlock') else 'step-bound-exceeded'}", {"stuck": s.stuck, "history": brief(hist)}, case)
            else:
                out.incon("scheduler lost a thread: " + s.stuck["reason"], case)
            return
        for t in s.ts:
            if t.exc is not None:
                out.violation(f"C12/harness-thread-died/{type(t.exc).__name__}", {"exc": repr(t.exc)[:200]}, case)
                return
        for r in hist:
            if r["res"][0] == "budget":
                out.violation("C12/progress/retry-budget-exceeded", {"op": brief([r]), "history": brief(hist)}, case)
                return
        final = tup(a.deref())
        lins = linearizations(hist)
        lins = [l for l in lins if l[1][-1] == final]
        if not lins:
            kinds = sorted({r["op"] for r in hist})
            out.violation("C12/linearizability/no-sequential-order-explains-history", {"history": brief(hist), "final": final, "ops": kinds}, case)
            return
        # validator: no observed value contains a rejected token
        seen_vals = [final] + [w[1] for w in watches] + [w[0] for w in watches]
        for r in hist:
            if r["res"][0] == "val":
                v = r["res"][1]
                if isinstance(v, tuple):
                    seen_vals.append(v if not (v and isinstance(v[0], tuple)) else v[0])
        if any(isinstance(x, str) and x.startswith("BAD") for v in seen_vals if isinstance(v, tuple) for x in v):
            out.violation("C12/validator/rejected-value-observable", {"history": brief(hist), "final": final, "watches": watches[:6]}, case)
            return
        # watches: every pair is a transition of some valid linearization; successful installs are notified at most once each
        ok_w = False
        for order, states in lins:
            trans = {(states[i], states[i + 1]) for i in range(len(states) - 1) if states[i] != states[i + 1] or True}
            if all(w in trans for w in watches):
                ok_w = True
                break
        if not ok_w:
            out.violation("C12/watch/pair-is-not-a-real-transition", {"history": brief(hist), "watches": watches[:8], "a_linearization_states": lins[0][1]}, case)
            return
        out.count("watch_pairs_checked", len(watches))
        # bounded progress: attempts <= 1 + successful installs by other threads within the op's window
        muts = [r for r in hist if r["op"] not in ("deref",) and r["res"][0] == "val" and r["res"][1] not in (False,)]
        for r in hist:
            if r["op"] in ("deref",):
                continue
            others = sum(1 for m in muts if m["thread"] != r["thread"] and not (m["ret"] < r["call"] or m["call"] > r["ret"]))
            if r["cas_attempts"] > 1 + others:
                out.violation("C12/progress/more-retries-than-interfering-installs", {"op": brief([r]), "attempts": r["cas_attempts"], "interfering_installs": others, "history": brief(hist)}, case)
                return
        out.count("histories_linearizable")

    def brief(hist):
        return [{k: (list(v) if isinstance(v, tuple) else v) for k, v in r.items() if k in ("thread", "op", "tok", "old", "res", "call", "ret", "cas_attempts")} for r in sorted(hist, key=lambda r: r["call"])]

    OPKINDS = ["swap", "swap", "swap-slow", "pyswap", "swap-vals", "reset", "pyreset", "reset-vals", "cas", "deref", "deref", "swap-throw", "swap-bad"]

    def gen_ops(nthreads):
        tok = itertools.count()
        res = []
        for ti in range(nthreads):
            ops = []
            for _ in range(rnd.randint(1, 3)):
                k = rnd.choice(OPKINDS)
                n = next(tok)
                ops.append({"op": k, "tok": ("BAD%d" % n) if k == "swap-bad" else "t%d" % n})
            res.append(ops)
        return res

    SCENARIOS = [
        [[{"op": "swap", "tok": "a"}], [{"op": "swap", "tok": "b"}]],
        [[{"op": "deref"}, {"op": "cas", "tok": "a"}], [{"op": "swap", "tok": "b"}, {"op": "deref"}]],
        [[{"op": "swap-vals", "tok": "a"}, {"op": "deref"}], [{"op": "reset-vals", "tok": "b"}], [{"op": "pyswap", "tok": "c"}]],
        [[{"op": "pyreset", "tok": "a"}, {"op": "swap-bad", "tok": "BADx"}], [{"op": "swap-slow", "tok": "b"}, {"op": "swap-throw", "tok": "c"}]],
    ]

    def copy_ops(tops):
        return [[dict(o) for o in ops] for ops in tops]

    if "replay" in spec:
        c = spec["replay"]
        if c["kind"] == "sched":
            s, hist, watches, a = run_scenario(copy_ops(c["ops"]), sched.replay_chooser(c["choices"]))
            judge(s, hist, watches, a, c, "replay")
        elif c["kind"] == "termination":
            termination(c.get("only"))
        return

    def termination(only=None):
        """single-threaded: every operation on an atom holding a value that is not equal to itself completes within 3 CAS attempts"""
        import decimal
        import math

        class NeverEq:
            def __eq__(self, o):
                return False

            def __ne__(self, o):
                return True

            __hash__ = object.__hash__

        class RaisingEq:
            def __eq__(self, o):
                raise RuntimeError("eq")

            def __ne__(self, o):
                raise RuntimeError("ne")

            __hash__ = object.__hash__

        class NonBoolEq:
            def __eq__(self, o):
                return []

            def __ne__(self, o):
                return []

            __hash__ = object.__hash__

        nan = float("nan")
        values = {"nan": nan, "vector-with-nan": V([nan]), "map-with-nan": b.lmap.map({K("a"): nan}), "decimal-nan": decimal.Decimal("NaN"), "never-equal-object": NeverEq(),
                  "list-with-nan": b.llist.list([1, nan]), "nonbool-eq-object": NonBoolEq(), "raising-eq-object": RaisingEq(), "plain": "plain-value"}
        for vname, val in values.items():
            if only and vname != only:
                continue
            for opname, f in (("reset!", lambda a: C("reset!")(a, 1)), ("swap!", lambda a: C("swap!")(a, C("identity") and (lambda x, *r: 2))), ("swap-vals!", lambda a: C("swap-vals!")(a, lambda x, *r: 2)),
                              ("reset-vals!", lambda a: C("reset-vals!")(a, 3)), ("Atom.reset", lambda a: a.reset(4)), ("Atom.swap", lambda a: a.swap(lambda x: 5)),
                              ("compare-and-set!", lambda a: C("compare-and-set!")(a, a.deref(), 6))):
                a = Atom(val)
                cas_calls.clear()
                budget["limit"] = 3
                out.ev(("term", vname, opname))
                try:
                    r = f(a)
                    got = a.deref()
                    if opname != "compare-and-set!" and (got is val):
                        out.violation(f"C12/termination/update-not-applied/{vname}", {"value": vname, "op": opname, "result": repr(r)[:80]}, {"kind": "termination", "only": vname})
                    if opname == "compare-and-set!" and vname not in ("raising-eq-object",) and r is not True and got is val:
                        # identity or equality are both accepted; a value compared with itself must match under identity
                        out.violation(f"C12/termination/cas-on-identical-value-fails/{vname}", {"value": vname, "op": opname}, {"kind": "termination", "only": vname})
                except RetryBudget:
                    out.violation(f"C12/termination/retries-forever/{vname}", {"value": vname, "op": opname, "cas_attempts": "more than 3 with no other thread"}, {"kind": "termination", "only": vname})
                except Exception as e:
                    if vname == "raising-eq-object":
                        out.count("raising_eq_propagated")
                    else:
                        out.violation(f"C12/termination/raises-{type(e).__name__}/{vname}", {"value": vname, "op": opname, "exc": repr(e)[:120]}, {"kind": "termination", "only": vname})
                finally:
                    budget.pop("limit", None)

    kind = spec["kind"]
    if kind == "random":
        for it in range(spec["n"]):
            tops = gen_ops(spec["threads"])
            chs = rnd.getrandbits(32)
            r2 = random.Random(chs)
            s, hist, watches, a = run_scenario(copy_ops(tops), sched.random_chooser(r2, switch_prob=rnd.choice([0.2, 0.5, 0.8])))
            case = {"kind": "sched", "ops": tops, "choices": [d[1] for d in s.decisions]}
            judge(s, hist, watches, a, case, "random")
            if it < 2:
                out.sample({"threads": tops, "history": brief(hist), "context_switches": sum(1 for i in range(1, len(s.trace)) if s.trace[i][0] != s.trace[i - 1][0]), "decisions": len(s.decisions)})
            out.maybe_flush()
    elif kind == "bounded":
        tops = SCENARIOS[spec["scenario"]]
        deadline = time.time() + spec["budget_s"]
        n = 0

        def make_run(chooser):
            s, hist, watches, a = run_scenario(copy_ops(tops), chooser)
            s._judge = (hist, watches, a)
            return s

        complete = True
        for s in sched.explore_bounded(make_run, spec["max_preemptions"], spec["max_schedules"], deadline):
            n += 1
            hist, watches, a = s._judge
            judge(s, hist, watches, a, {"kind": "sched", "ops": tops, "choices": [d[1] for d in s.decisions]}, "scenario%d" % spec["scenario"])
            out.maybe_flush()
        if n >= spec["max_schedules"] or time.time() > deadline:
            complete = False
        out.setx("bounded_scenario_%d" % spec["scenario"], {"schedules": n, "enumeration_complete": complete, "max_preemptions": spec["max_preemptions"]})
        out.sample({"scenario": tops, "schedules_enumerated": n, "complete": complete})
    elif kind == "termination":
        termination()
    elif kind == "stress":
        # free-running: real preemption with a tiny switch interval; final value must contain each token exactly once
        import sys
        import threading

        old = sys.getswitchinterval()
        sys.setswitchinterval(1e-6)
        try:
            for it in range(spec["n"]):
                a = Atom(V([]))
                nthreads, per = 8, 40
                rets = [[] for _ in range(nthreads)]

                def w(i):
                    for j in range(per):
                        r = C("swap!")(a, C("conj"), (i, j)) if j % 2 else a.swap(lambda v, x: v.cons(x), (i, j))
                        rets[i].append(tuple(r))

                ths = [threading.Thread(target=w, args=(i,)) for i in range(nthreads)]
                [t.start() for t in ths]
                [t.join(60) for t in ths]
                final = list(a.deref())
                out.ev(("stress", it, hash(tuple(final))))
                if sorted(final) != sorted((i, j) for i in range(nthreads) for j in range(per)):
                    missing = len(set((i, j) for i in range(nthreads) for j in range(per)) - set(final))
                    out.violation("C12/linearizability/lost-or-duplicated-update-under-stress", {"expected": nthreads * per, "got": len(final), "missing": missing, "duplicates": len(final) - len(set(final))}, {"kind": "stress"})
                    break
                # each return value is the value that op installed: it ends with its own token
                bad = [(i, j) for i in range(nthreads) for j, r in enumerate(rets[i]) if not r or r[-1] != (i, j)]
                if bad:
                    out.violation("C12/linearizability/return-value-is-not-the-installed-value", {"ops": bad[:5]}, {"kind": "stress"})
                    break
        finally:
            sys.setswitchinterval(old)
