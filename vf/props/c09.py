"""C09 — syntax-quote is hygienic and destructuring binds what nth/nthnext/get would return.

Destructuring monitor: generated patterns (vectors with & and :as; maps with direct keys, :keys/:strs/:syms, namespaced keys,
:or, :as; keyword-argument rests in fn params) are applied in let, fn and loop to conforming, short, nil and wrongly typed
values; every bound name is compared with the accessor expression the reference derives from the pattern alone, evaluated with
the REAL nth / nthnext / get of the same process on the same value (if the accessor raises, the destructuring form must raise
too); a form and its macroexpansion must evaluate alike.
Syntax-quote monitor: generated templates are read and evaluated in namespaces with known interns/refers/aliases and compared
with the data the reference computes (special forms bare, symbols qualified to the Var they denote or to the current namespace,
one fresh gensym per template, unquote / unquote-splice values, collection types preserved); streams in which the meaning of a
symbol changes between two templates check that resolution follows the namespace state.
"""
from __future__ import annotations

import itertools
import random


def plan(tier, seed):
    q = tier == "quick"
    shards = []
    for i in range(6 if q else 12):
        shards.append({"kind": "destructure", "n": 260 if q else 9000, "depth": 2 if q else 3})
    for i in range(3 if q else 6):
        shards.append({"kind": "synquote", "n": 400 if q else 9000})
    shards.append({"kind": "streams", "n": 40 if q else 600})
    return {
        "level": "exploration",
        "rule": "destructuring patterns of depth <= 2 (thorough 3) over the documented vocabulary x values {conforming, too short, nil, number, string, set, Python list/dict/tuple, lazy seq} x forms {let, fn, "
        "loop} + macroexpansion equivalence; syntax-quote templates of depth <= 3 over {core symbol, local symbol, referred symbol, aliased symbol, special form, gensym, unquote, unquote-splice} in "
        "list/vector/map/set under 3 namespace states; reader streams where a symbol's meaning changes between two templates. distinct = distinct (pattern, value, form) / (template, namespace state); "
        "non-trivial = patterns binding at least two names, templates with at least two symbols.",
        "shards": shards,
        "min_evaluations": 1500,
        "watchdog_s": 1200 if q else 3400,
        "assumptions": ["[a & {:keys ..}] inside let/loop is not in the documented vocabulary and is not generated", "duplicate local names in one pattern are not generated",
                        ":or applies when get finds no entry for the key, i.e. expected = (get v k default)"],
    }


def worker(spec, out):
    from vf import boot

    b = boot.init()
    rnd = random.Random(spec["seed"])
    C = b.core
    K, S, V, L, M = b.kw.keyword, b.sym.symbol, b.vec.vector, b.llist.list, b.lmap.map
    from basilisp.lang import interfaces as I

    NTH, NTHNEXT, GET = C("nth"), C("nthnext"), C("get")
    SEQP, APPLY, HASH_MAP, NEXT, FIRST = C("seq?"), C("apply"), C("hash-map"), C("next"), C("first")
    pr = C("pr-str")

    # ================================================================================================================
    # destructuring
    # ================================================================================================================
    class PG:
        def __init__(self, r):
            self.r = r
            self.n = itertools.count()

        def name(self):
            return "n%d" % next(self.n)

        def pat(self, d, in_fn_params=False):
            """returns (text, binder) ; binder(value) -> list of (name, thunk) in binding order, where thunk() is the expected value"""
            r = self.r
            t = r.random()
            if d <= 0 or t < 0.3:
                nm = self.name()
                return nm, (lambda v, nm=nm: [(nm, (lambda: v))])
            if t < 0.65:
                return self.vec(d)
            return self.map(d)

        def vec(self, d):
            r = self.r
            n = r.randint(0, 3)
            subs = [self.pat(d - 1) for _ in range(n)]
            text = " ".join(s[0] for s in subs)
            rest = None
            if r.random() < 0.5:
                # the documented rest element is a name (a nested pattern after & is only accepted in fn parameter vectors)
                rn = self.name()
                rest = (rn, (lambda v, rn=rn: [(rn, (lambda: v))]))
                text += " & " + rest[0]
            asn = None
            if r.random() < 0.4:
                asn = self.name()
                text += " :as " + asn

            def binder(v, subs=subs, rest=rest, asn=asn, n=n):
                out_ = []
                for i, (_, sb) in enumerate(subs):
                    out_ += lazy_sub(sb, (lambda i=i: NTH(v, i, None)))
                if rest is not None:
                    out_ += lazy_sub(rest[1], (lambda: NTHNEXT(v, n)))
                if asn:
                    out_.append((asn, (lambda: v)))
                return out_

            return "[" + text.strip() + "]", binder

        def map(self, d):
            r = self.r
            parts = []
            binders = []
            defaults = {}
            for _ in range(r.randint(0, 2)):
                kk = r.choice([(":a", K("a")), (":b", K("b")), (":ns/c", K("c", ns="ns")), ('"s"', "s"), ("'y", S("y")), ("0", 0)])
                sub = self.pat(d - 1)
                if any(p.startswith(sub[0] + " ") for p in parts):
                    continue  # the pattern is a key of the map literal: an equal one (two empty patterns) would be a duplicate key
                parts.append(sub[0] + " " + kk[0])
                binders.append(("sub", sub, kk[1]))
            if r.random() < 0.6:
                names = r.sample(["k1", "k2", "k3"], r.randint(1, 2))
                names = [nm + "_%d" % next(self.n) for nm in names]
                parts.append(":keys [" + " ".join(names) + "]")
                for nm in names:
                    binders.append(("key", nm, K(nm)))
            if r.random() < 0.25:
                nm = "s%d" % next(self.n)
                parts.append(":strs [" + nm + "]")
                binders.append(("key", nm, nm))
            if r.random() < 0.25:
                nm = "y%d" % next(self.n)
                parts.append(":syms [" + nm + "]")
                binders.append(("key", nm, S(nm)))
            if r.random() < 0.25:
                nm = "q%d" % next(self.n)
                parts.append(":ns/keys [" + nm + "]")
                binders.append(("key", nm, K(nm, ns="ns")))
            if r.random() < 0.25:
                nm = "z%d" % next(self.n)
                parts.append(":ns/syms [" + nm + "]")
                binders.append(("key", nm, S(nm, ns="ns")))
            simple = [bd for bd in binders if bd[0] == "key"] + [bd for bd in binders if bd[0] == "sub" and bd[1][0].isidentifier()]
            if simple and r.random() < 0.5:
                ors = []
                for bd in r.sample(simple, r.randint(1, min(2, len(simple)))):
                    nm = bd[1] if bd[0] == "key" else bd[1][0]
                    dv = r.choice([(":dflt", K("dflt")), ("0", 0), ("nil", None), ("false", False)])
                    defaults[nm] = dv[1]
                    ors.append(nm + " " + dv[0])
                parts.append(":or {" + " ".join(ors) + "}")
            asn = None
            if r.random() < 0.4:
                asn = self.name()
                parts.append(":as " + asn)
            r.shuffle(parts)

            def binder(v, binders=binders, defaults=defaults, asn=asn):
                out_ = []
                # documented keyword-argument convention, applied (as in Clojure 1.11) to every seq under a map pattern:
                # interleaved key/value pairs are collected into a map, a single element is taken as the map itself
                if SEQP(v):
                    try:
                        v = APPLY(HASH_MAP, v) if NEXT(v) else FIRST(v)
                    except Exception as e:
                        return [("!raise", (lambda e=e: (_ for _ in ()).throw(e)))]
                for bd in binders:
                    if bd[0] == "key":
                        nm, key = bd[1], bd[2]
                        if nm in defaults:
                            out_.append((nm, (lambda key=key, nm=nm: GET(v, key, defaults[nm]))))
                        else:
                            out_.append((nm, (lambda key=key: GET(v, key))))
                    else:
                        sub, key = bd[1], bd[2]
                        if sub[0] in defaults:
                            out_ += lazy_sub(sub[1], (lambda key=key, nm=sub[0]: GET(v, key, defaults[nm])))
                        else:
                            out_ += lazy_sub(sub[1], (lambda key=key: GET(v, key)))
                if asn:
                    out_.append((asn, (lambda: v)))
                return out_

            return "{" + " ".join(parts) + "}", binder

    def lazy_sub(sub_binder, value_thunk):
        """bindings of a nested pattern applied to the value produced by value_thunk (evaluated lazily, once)"""
        cache = {}

        def val():
            if "v" not in cache:
                cache["v"] = value_thunk()
            return cache["v"]

        class Proxy:
            pass

        # expand the sub-binder against a deferred value: evaluate now but keep exceptions inside the thunks
        try:
            v = val()
        except Exception as e:
            return [("!raise", (lambda e=e: (_ for _ in ()).throw(e)))]
        return sub_binder(v)

    def values_for():
        py_list, py_tuple, py_dict = [1, 2, 3], (1, 2), {K("a"): 1, "s": 2}
        lazy = C("map")(C("identity"), V([1, 2, 3, 4]))
        nested = M({K("a"): V([1, V([2, 3])]), K("b"): M({K("a"): 1, "s": "str", K("k1"): None}), "s": V([9]), S("y"): 7, K("c", ns="ns"): L([1, 2]), 0: K("zero")})
        return [V([1, 2, 3, 4]), V([1]), V([]), None, L([1, V([2, 3]), M({K("a"): 5})]), V([V([1, 2]), M({K("a"): 1, K("b"): V([7, 8])}), None]), nested, M({}), M({K("a"): None, K("b"): False}),
                5, "str", b.lset.set([1, 2]), py_list, py_tuple, py_dict, lazy, V([M({K("a"): V([1, 2])}), M({K("a"): None})]), L([K("a"), 1, K("b"), 2])]

    ns_d = b.fresh_ns("vf.c09d.")
    holder = b.intern(ns_d, "the-val", None)

    def norm(v, depth=0):
        if v is None or isinstance(v, (bool, int, float, str)):
            return v
        if isinstance(v, (b.kw.Keyword, b.sym.Symbol)):
            return ("id", str(v))
        if depth > 12:
            return "deep"
        if isinstance(v, I.IPersistentMap):
            return ("map", frozenset((norm(a, depth + 1), norm(c, depth + 1)) for a, c in v.items()))
        if isinstance(v, dict):
            return ("pydict", frozenset((norm(a, depth + 1), norm(c, depth + 1)) for a, c in v.items()))
        if isinstance(v, I.IPersistentSet):
            return ("set", frozenset(norm(x, depth + 1) for x in v))
        if isinstance(v, I.IPersistentVector):
            return ("vec", tuple(norm(x, depth + 1) for x in v))
        if isinstance(v, (I.ISeq, I.IPersistentList)):
            return ("seq", tuple(norm(x, depth + 1) for x in itertools.islice(iter(v), 50)))
        if isinstance(v, (list, tuple)):
            return (type(v).__name__, tuple(norm(x, depth + 1) for x in v))
        return ("obj", type(v).__name__)

    def destructure_case(seed, depth, vi, form):
        r = random.Random(seed)
        g = PG(r)
        text, binder = g.vec(depth) if r.random() < 0.5 else g.map(depth)
        vals = values_for()
        v = vals[vi % len(vals)]
        case = {"kind": "destructure", "seed": seed, "depth": depth, "vi": vi, "form": form}
        # expectation through the real accessors
        exp_exc = None
        names, expected = [], []
        try:
            for nm, th in binder(v):
                val = th()
                if nm != "!raise":
                    names.append(nm)
                    expected.append(val)
        except Exception as e:
            exp_exc = type(e).__name__
        if exp_exc is not None:
            # names are not all known when an accessor raises: bind what the pattern text mentions
            import re

            names = sorted(set(re.findall(r"\b(?:n|k[123]_|s|y|q|z)\d+\b", text)))
        body = "[" + " ".join(names) + "]"
        if form == "let":
            code = f"(let [{text} the-val] {body})"
        elif form == "fn":
            code = f"((fn [{text}] {body}) the-val)"
        else:
            code = f"(loop [{text} the-val] {body})"
        holder.bind_root(v)
        out.ev(("d", text, vi % len(vals), form) if len(names) >= 2 else None)
        out.count("form_" + form)
        try:
            got = b.eval_str(code, ns=ns_d)
            got_exc = None
        except b.compiler.CompilerException as e:
            out.violation("C09/destructure/pattern-rejected-at-compile-time", {"code": code, "error": str(getattr(e, "msg", e))[:160]}, case)
            return
        except Exception as e:
            got, got_exc = None, type(e).__name__
        if exp_exc is not None:
            out.count("accessor_raises")
            if got_exc is None:
                out.violation("C09/destructure/accessor-raises-but-binding-succeeds", {"code": code, "value": pr(v)[:120], "accessor_exception": exp_exc, "bound": pr(got)[:160]}, case)
            return
        if got_exc is not None:
            out.violation(f"C09/destructure/raises-{got_exc}-where-accessors-succeed/{kind_of(v)}", {"code": code, "value": pr(v)[:120], "expected": [pr(x)[:60] for x in expected]}, case)
            return
        gl = list(got)
        if len(gl) != len(expected) or any(norm(a) != norm(c) for a, c in zip(gl, expected)):
            bad = [names[i] for i in range(min(len(gl), len(expected))) if norm(gl[i]) != norm(expected[i])]
            which = "rest" if any("&" in text and nm in text.split("&")[-1] for nm in bad) else ("or-default" if ":or" in text and any(nm in text.split(":or")[1].split("}")[0] for nm in bad) else ("as" if any((":as " + nm) in text for nm in bad) else "element"))
            out.violation(f"C09/destructure/binds-other-than-accessor-value/{which}/{form}", {"code": code, "value": pr(v)[:160], "names": names, "bound": [pr(x)[:60] for x in gl], "expected_by_nth_get": [pr(x)[:60] for x in expected]}, case)
            return
        # a form and its macroexpansion evaluate alike
        if r.random() < 0.35:
            try:
                expanded = b.eval_str(f"(macroexpand '{code})", ns=ns_d)
                got2 = b.eval_forms([expanded], ns=ns_d)
                out.count("macroexpansion_equivalence_checks")
                if [norm(x) for x in got2] != [norm(x) for x in gl]:
                    out.violation("C09/destructure/macroexpansion-evaluates-differently", {"code": code, "direct": pr(got)[:160], "via_macroexpand": pr(got2)[:160]}, case)
            except Exception as e:
                out.violation(f"C09/destructure/macroexpansion-raises-{type(e).__name__}", {"code": code, "exc": repr(e)[:160]}, case)

    def kind_of(v):
        if v is None:
            return "nil"
        if isinstance(v, I.IPersistentVector):
            return "vector"
        if isinstance(v, I.IPersistentMap):
            return "map"
        if isinstance(v, (I.ISeq, I.IPersistentList)):
            return "seq"
        return type(v).__name__

    def kwargs_cases():
        """keyword-argument rests in fn params: seq -> map coercion, trailing map"""
        cases = [("((fn [a & {:keys [x y] :or {y :dy} :as opts}] [a x y opts]) 1 :x 2)", [1, 2, K("dy"), M({K("x"): 2})]),
                 ("((fn [a & {:keys [x y]}] [a x y]) 1 :x 2 :y 3)", [1, 2, 3]),
                 ("((fn [a & {:keys [x y]}] [a x y]) 1)", [1, None, None]),
                 ("((fn [& {:keys [x] :strs [s]}] [x s]) :x 1 \"s\" 2)", [1, 2]),
                 ("((fn [a & {:keys [x y]}] [a x y]) 1 {:x 5 :y 6})", [1, 5, 6]),
                 ("((fn [a & {:keys [x y]}] [a x y]) 1 :x 2 {:y 6})", [1, 2, 6]),
                 ("((fn [a & [b & more]] [a b more]) 1 2 3 4)", [1, 2, L([3, 4])]),
                 ("((fn [[a b] {:keys [c]} & [d]] [a b c d]) [1 2] {:c 3} 4)", [1, 2, 3, 4])]
        for code, want in cases:
            out.ev(("kwargs", code))
            try:
                got = list(b.eval_str(code, ns=ns_d))
            except Exception as e:
                out.violation(f"C09/destructure/kwargs-raises-{type(e).__name__}", {"code": code, "exc": repr(e)[:160]}, {"kind": "kwargs"})
                continue
            if [norm(x) for x in got] != [norm(x) for x in want]:
                out.violation("C09/destructure/kwargs-binds-other-values", {"code": code, "bound": [pr(x) for x in got], "expected": [pr(x) for x in want]}, {"kind": "kwargs"})

    # ================================================================================================================
    # syntax quote
    # ================================================================================================================
    SPECIAL = ["if", "do", "let*", "fn*", "def", "quote", "var", "recur", "throw", "try", "loop*", "letfn*"]

    def make_state(kind):
        """a namespace with known interns / refers / aliases; returns (ns, resolve_fn(symbol_text) -> expected qualified text)"""
        ns = b.fresh_ns("vf.c09q.")
        other = b.fresh_ns("vf.c09o.")
        b.eval_str("(def helper 1) (def other-fn 2)", ns=other)
        b.eval_str("(def local-fn 1) (def local-val 2)", ns=ns)
        table = {"local-fn": f"{ns.name}/local-fn", "local-val": f"{ns.name}/local-val", "map": "basilisp.core/map", "first": "basilisp.core/first", "str": "basilisp.core/str"}
        if kind >= 1:
            ns.add_alias(other, S("al"))
            table["al/helper"] = f"{other.name}/helper"
            table["al/unknown"] = f"{other.name}/unknown"
        if kind >= 2:
            ns.add_refer(S("other-fn"), other.find(S("other-fn")))
            table["other-fn"] = f"{other.name}/other-fn"
            b.eval_str("(def map :shadowed)", ns=ns)  # a local intern shadows the referred core Var
            table["map"] = f"{ns.name}/map"
        return ns, other, table

    class TG:
        def __init__(self, r, ns, table):
            self.r, self.ns, self.table = r, ns, table
            self.gens = {}

        def sym(self):
            r = self.r
            t = r.random()
            if t < 0.45:
                k = r.choice(sorted(self.table))
                return k, ("sym", self.table[k])
            if t < 0.6:
                k = r.choice(SPECIAL)
                return k, ("sym", k)
            if t < 0.75:
                k = r.choice(["undefined-sym", "another.ns/qualified", "also-undefined", "&"])
                return k, ("sym", k if "/" in k or k == "&" else f"{self.ns.name}/{k}")
            if t < 0.9:
                k = r.choice(["g1#", "g2#"])
                return k, ("gensym", k)
            k = r.choice([":kw", "42", '"s"', "nil", "true", ":ns/kw"])
            return k, ("lit", k)

        def form(self, d):
            r = self.r
            t = r.random()
            if d <= 0 or t < 0.4:
                return self.sym()
            if t < 0.5:
                k = r.choice(["v1", "v2", "v3"])
                return "~" + k, ("unquote", k)
            if t < 0.58:
                k = r.choice(["v1", "v3"])
                return "~@" + k, ("splice", k)
            n = r.randint(0, 3)
            kids = [self.form(d - 1) for _ in range(n)]
            if t < 0.78:
                return "(" + " ".join(k[0] for k in kids) + ")", ("list", [k[1] for k in kids])
            if t < 0.92:
                return "[" + " ".join(k[0] for k in kids) + "]", ("vec", [k[1] for k in kids])
            if t < 0.96:
                kids = [k if k[1][0] != "splice" else self.sym() for k in kids]  # a splice as a map value changes the number of entries
                ks =[":k%d" % i for i in range(len(kids))]
                return "{" + " ".join(a + " " + k[0] for a, k in zip(ks, kids)) + "}", ("map", [(("lit", a), k[1]) for a, k in zip(ks, kids)])
            kids = [self.sym() for _ in range(min(n, 2))]
            kids = [k for i, k in enumerate(kids) if k[0] not in [x[0] for x in kids[:i]]]
            return "#{" + " ".join(k[0] for k in kids) + "}", ("set", [k[1] for k in kids])

    LOCALS = {"v1": "[1 2]", "v2": ":kw", "v3": "(list 'q 'r)"}

    def expect_eq(node, got, gens, path="τ"):
        """compare evaluated template `got` with expectation node; returns failure (kind, detail) or None"""
        k = node[0]
        if k == "sym":
            return None if (isinstance(got, b.sym.Symbol) and str(got) == node[1]) else ("symbol-resolution", f"{path}: expected {node[1]} got {pr(got)}")
        if k == "gensym":
            if not isinstance(got, b.sym.Symbol) or got.ns is not None or got.name.endswith("#") or not got.name.startswith(node[1][:-1]):
                return ("gensym", f"{path}: expected a fresh symbol for {node[1]} got {pr(got)}")
            prev = gens.setdefault(node[1], got)
            if prev != got:
                return ("gensym", f"{path}: {node[1]} is two different symbols in one template: {pr(prev)} / {pr(got)}")
            return None
        if k == "lit":
            want = b.read_all(node[1])[0]
            return None if (got == want and type(got) is type(want)) else ("literal", f"{path}: expected {node[1]} got {pr(got)}")
        if k == "unquote":
            want = b.eval_str(LOCALS[node[1]], ns=ns_d)
            return None if norm(got) == norm(want) else ("unquote", f"{path}: expected value of {node[1]} = {pr(want)} got {pr(got)}")
        if k in ("list", "vec", "set"):
            want_items = []
            for ch in node[1]:
                if ch[0] == "splice":
                    for x in b.eval_str(LOCALS[ch[1]], ns=ns_d):
                        want_items.append(("value", x))
                else:
                    want_items.append(ch)
            if k == "list" and not isinstance(got, (I.ISeq, I.IPersistentList)) or k == "vec" and not isinstance(got, I.IPersistentVector) or k == "set" and not isinstance(got, I.IPersistentSet):
                if not (k == "list" and got is None and not want_items):
                    return ("collection-type", f"{path}: expected a {k} got {type(got).__name__} {pr(got)[:60]}")
            items = list(got) if got is not None else []
            if len(items) != len(want_items):
                return ("splice-or-length", f"{path}: expected {len(want_items)} elements got {pr(got)[:80]}")
            if k == "set":
                return None
            for i, (w, g) in enumerate(zip(want_items, items)):
                if w[0] == "value":
                    if norm(w[1]) != norm(g):
                        return ("splice", f"{path}[{i}]: expected spliced {pr(w[1])} got {pr(g)}")
                else:
                    f = expect_eq(w, g, gens, f"{path}[{i}]")
                    if f:
                        return f
            return None
        if k == "map":
            if not isinstance(got, I.IPersistentMap):
                return ("collection-type", f"{path}: expected a map got {type(got).__name__}")
            for kk, vv in node[1]:
                key = b.read_all(kk[1])[0]
                if not got.contains(key):
                    return ("map-key", f"{path}: key {kk[1]} missing in {pr(got)[:80]}")
                if vv[0] == "splice":
                    continue
                f = expect_eq(vv, got.val_at(key), gens, f"{path}[{kk[1]}]")
                if f:
                    return f
            return None
        return ("harness", "unknown node " + k)

    def synquote_case(seed, state_kind):
        r = random.Random(seed)
        ns, other, table = make_state(state_kind)
        try:
            tg = TG(r, ns, table)
            text, node = tg.form(3)
            while node[0] in ("splice",):
                text, node = tg.form(3)
            if node[0] == "map" and any(v[0] == "splice" for _, v in node[1]):
                return
            code = "(let [v1 [1 2] v2 :kw v3 (list 'q 'r)] `" + text + ")"
            case = {"kind": "synquote", "seed": seed, "state": state_kind}
            nsyms = text.count(" ") + 1
            out.ev(("q", text, state_kind) if nsyms >= 2 else None)
            try:
                got = b.eval_str(code, ns=ns)
            except Exception as e:
                out.violation(f"C09/syntax-quote/raises-{type(e).__name__}", {"template": "`" + text, "exc": str(e)[:200]}, case)
                return
            gens = {}
            f = expect_eq(node, got, gens)
            if f:
                out.violation(f"C09/syntax-quote/{f[0]}", {"template": "`" + text, "evaluates_to": pr(got)[:200], "problem": f[1][:200], "namespace_state": state_kind}, case)
                return
            # gensyms are fresh across two reads of the same template
            if gens:
                got2 = b.eval_str(code, ns=ns)
                gens2 = {}
                expect_eq(node, got2, gens2)
                out.count("gensym_freshness_checks")
                for kx in gens:
                    if kx in gens2 and gens[kx] == gens2[kx]:
                        out.violation("C09/syntax-quote/gensym-not-fresh-across-reads", {"template": "`" + text, "first": pr(gens[kx]), "second": pr(gens2[kx])}, case)
                        return
        finally:
            b.drop_ns(ns)
            b.drop_ns(other)

    def stream_case(seed):
        """one reader stream: template, a form that changes what a symbol denotes, the template again"""
        r = random.Random(seed)
        ns = b.fresh_ns("vf.c09s.")
        other = b.fresh_ns("vf.c09so.")
        try:
            b.eval_str("(def upper 1) (def lower 2)", ns=other)
            changes = [("shadow-core", "last", "(def last :mine)", "basilisp.core/last", f"{ns.name}/last"),
                       ("refer", "upper", f"(refer '{other.name} :only '[upper])", f"{ns.name}/upper", f"{other.name}/upper"),
                       ("define", "fresh-name", "(def fresh-name 1)", f"{ns.name}/fresh-name", f"{ns.name}/fresh-name"),
                       ("ns-unmap", "lower2", "(do (def lower2 1) nil)", f"{ns.name}/lower2", f"{ns.name}/lower2")]
            kind_, sym_, change, before, after = r.choice(changes)
            case = {"kind": "stream", "seed": seed}
            text = f"(def r1 `{sym_})\n(def r1b `({sym_} {sym_}))\n{change}\n(def r2 `{sym_})\n(def r2b `[{sym_}])\n(defmacro m [] `({sym_}))\n(def r3 (first (macroexpand '(m))))"
            out.ev(("stream", kind_, seed % 4))
            try:
                b.eval_str(text, ns=ns)  # ONE reader stream for all forms
            except Exception as e:
                out.violation(f"C09/syntax-quote/stream-raises-{type(e).__name__}", {"stream": text, "exc": str(e)[:200]}, case)
                return
            got = {n: str(ns.find(S(n)).value) for n in ("r1", "r2", "r3")}
            got["r1b"] = [str(x) for x in ns.find(S("r1b")).value]
            got["r2b"] = [str(x) for x in ns.find(S("r2b")).value]
            want = {"r1": before, "r1b": [before, before], "r2": after, "r2b": [after], "r3": after}
            if got != want:
                out.violation(f"C09/syntax-quote/resolution-does-not-follow-namespace-state/{kind_}", {"stream": text, "got": got, "expected": want}, case)
        finally:
            b.drop_ns(ns)
            b.drop_ns(other)

    if "replay" in spec:
        c = spec["replay"]
        if c["kind"] == "destructure":
            destructure_case(c["seed"], c["depth"], c["vi"], c["form"])
        elif c["kind"] == "synquote":
            synquote_case(c["seed"], c["state"])
        elif c["kind"] == "stream":
            stream_case(c["seed"])
        else:
            kwargs_cases()
        return

    kind = spec["kind"]
    if kind == "destructure":
        kwargs_cases()
        for it in range(spec["n"]):
            seed = rnd.getrandbits(40)
            for form in ("let", "fn", "loop"):
                destructure_case(seed, spec["depth"], it, form)
            out.maybe_flush()
        r = random.Random(1)
        out.sample({"pattern": PG(r).map(2)[0], "another": PG(r).vec(2)[0]})
    elif kind == "synquote":
        for it in range(spec["n"]):
            synquote_case(rnd.getrandbits(40), it % 3)
            out.maybe_flush()
        out.sample({"template_example": "`(local-fn ~v1 ~@v3 g1# g1# if al/helper)"})
    else:
        for it in range(spec["n"]):
            stream_case(rnd.getrandbits(40))
