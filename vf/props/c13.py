"""C13 — delays run once, promises deliver once, futures yield their body's outcome.

Delay and promise scenarios run 2-4 real threads under the cooperative scheduler (vf/sched.py); futures run on the real
executor pool with rendezvous events placed by the harness. Oracles over recorded histories:
  delay    at most one body execution at a time, none starts after one has returned, every deref returns the value of the single
           completed run (a throwing body may be re-run or its exception cached), realized? is monotone
  promise  write-once register: all non-timeout derefs return the same delivered value; the winner is not preceded (in real time) by
           another completed deliver; a timed deref returns the timeout value only if no deliver completed before it was invoked;
           realized? is monotone and true after any deliver returned
  future   deref returns the body's value or re-raises an exception of the body's class; realized?/future-done? are monotone
"""
from __future__ import annotations

import itertools
import random
import time


def plan(tier, seed):
    q = tier == "quick"
    shards = []
    for i in range(4 if q else 8):
        shards.append({"kind": "delay-random", "n": 250 if q else 4000})
    for i in range(4 if q else 8):
        shards.append({"kind": "promise-random", "n": 250 if q else 4000})
    shards.append({"kind": "delay-bounded", "max_preemptions": 2, "max_schedules": 1500 if q else 40000, "budget_s": 40 if q else 900})
    shards.append({"kind": "promise-bounded", "max_preemptions": 2, "max_schedules": 1500 if q else 40000, "budget_s": 40 if q else 900})
    shards.append({"kind": "future", "n": 300 if q else 6000})
    return {
        "level": "exploration",
        "rule": "schedules (line granularity) of 2-4 threads racing to force one delay (bodies: plain, slow, throwing once) / to deliver to and deref one promise (blocking and timed derefs): seeded random "
        "walks and depth-first enumeration with <= 2 preemptions; futures on the real executor with rendezvous at before-start/during/after-completion, value and exception bodies, under a 1 microsecond "
        "switch interval. distinct = distinct (scenario, interleaving); non-trivial = at least one context switch.",
        "shards": shards,
        "min_evaluations": 300,
        "watchdog_s": 900 if q else 3400,
        "assumptions": ["preemption matters only at statement boundaries of the instrumented code objects (Delay, Promise, Atom methods, core deref/force/deliver/realized?, harness bodies)",
                        "a delay body that throws may be re-run on the next deref or have its exception cached"],
    }


def worker(spec, out):
    from vf import boot, sched

    b = boot.init()
    rnd = random.Random(spec["seed"])
    import basilisp.lang.atom as atom_mod
    import basilisp.lang.delay as delay_mod
    import basilisp.lang.promise as promise_mod

    proxy = sched.ThreadingProxy()
    atom_mod.threading = proxy
    promise_mod.threading = proxy
    if hasattr(delay_mod, "threading"):
        delay_mod.threading = proxy
    Delay, Promise = delay_mod.Delay, promise_mod.Promise
    C = b.core

    def cls_codes(cls):
        fns = []
        for name, v in vars(cls).items():
            if isinstance(v, property):
                fns.append(v.fget)
            elif isinstance(v, (staticmethod, classmethod)):
                fns.append(v.__func__)
            elif callable(v) and hasattr(v, "__code__"):
                fns.append(v)
        return fns

    core_fns = [C(n) for n in ("deref", "force", "deliver", "realized?")]

    # ---- delay ------------------------------------------------------------------------------------------------------------
    def delay_scenario(nthreads, body_kind, chooser, via):
        clock = itertools.count()
        events = []  # (time, thread, what, payload)
        runs = itertools.count(1)

        def body():
            me = sched._real_threading.get_ident()
            n = next(runs)
            events.append((next(clock), me, "enter", n))
            x = n
            y = x * 10
            if body_kind == "throw-once" and n == 1:
                events.append((next(clock), me, "exit-exc", n))
                raise ValueError("delay body failed")
            events.append((next(clock), me, "exit", n))
            return ("value-of-run", n, y)

        d = Delay(body)
        hist = []

        def mk(ti):
            def fn():
                me = sched._real_threading.get_ident()
                for rep in range(2 if ti == 0 else 1):
                    s0 = next(clock)
                    r0 = d.is_realized
                    e0 = next(clock)
                    call = next(clock)
                    try:
                        v = C("force")(d) if via == "force" else (C("deref")(d) if via == "deref" else d.deref())
                        res = ("val", v)
                    except Exception as e:
                        res = ("exc", type(e).__name__)
                    ret = next(clock)
                    s1 = next(clock)
                    r1 = d.is_realized
                    e1 = next(clock)
                    hist.append({"thread": ti, "call": call, "ret": ret, "res": res, "realized_before": r0, "realized_after": r1, "samples": [(s0, e0, r0), (s1, e1, r1)]})
            return fn

        codes = sched.code_objects(*cls_codes(Delay), *cls_codes(atom_mod.Atom), body, *core_fns)
        s = sched.Sched([mk(i) for i in range(nthreads)], codes, chooser, max_steps=8000)
        s.run()
        return s, hist, events, d

    def judge_delay(s, hist, events, d, case, label):
        nsw = sum(1 for i in range(1, len(s.trace)) if s.trace[i][0] != s.trace[i - 1][0])
        out.ev(("delay", label, hash(s.schedule_id())) if nsw else None)
        out.count("context_switches", nsw)
        if s.stuck:
            if s.stuck["reason"].startswith(("deadlock", "step bound")):
                out.violation("C13/delay/" + ("deadlock" if s.stuck["reason"].startswith("deadlock") else "step-bound-exceeded"), {"stuck": s.stuck}, case)
            else:
                out.incon("scheduler lost a thread: " + s.stuck["reason"], case)
            return
        for t in s.ts:
            if t.exc is not None:
                out.violation(f"C13/harness-thread-died/{type(t.exc).__name__}", {"exc": repr(t.exc)[:200]}, case)
                return
        ev = sorted(events)
        active = 0
        completed_ok = 0
        for tm, th, what, n in ev:
            if what == "enter":
                if active > 0:
                    out.violation("C13/delay/body-runs-overlap", {"events": [(e[2], e[3]) for e in ev]}, case)
                    return
                if completed_ok > 0:
                    out.violation("C13/delay/body-run-again-after-a-run-returned", {"events": [(e[2], e[3]) for e in ev]}, case)
                    return
                active += 1
            elif what == "exit":
                active -= 1
                completed_ok += 1
            elif what == "exit-exc":
                active -= 1
        vals = [h["res"][1] for h in hist if h["res"][0] == "val"]
        if vals and any(v != vals[0] for v in vals):
            out.violation("C13/delay/derefs-return-different-values", {"values": [repr(v) for v in vals]}, case)
            return
        if vals and completed_ok != 1:
            out.violation("C13/delay/value-returned-without-exactly-one-completed-run", {"completed_runs": completed_ok, "values": [repr(v) for v in vals]}, case)
            return
        # realized? monotone: once true (sampled at logical time t) never false at a later time
        samples = sorted(x for h in hist for x in h["samples"])
        for (sa, ea, ra) in samples:
            if ra:
                for (sb, eb, rb) in samples:
                    if not rb and ea < sb:  # a 'true' sample finished before a 'false' sample started
                        out.violation("C13/delay/realized-not-monotone", {"samples": samples}, case)
                        return
        for h in hist:
            if h["res"][0] == "val" and not h["realized_after"]:
                out.violation("C13/delay/not-realized-after-deref-returned", {"history": hist}, case)
                return
        out.count("delay_histories_ok")

    # ---- promise ----------------------------------------------------------------------------------------------------------
    def promise_scenario(roles, chooser):
        """roles: list of lists of ('deliver', v) | ('deref',) | ('deref-timeout',) | ('realized?',)"""
        clock = itertools.count()
        p = Promise()
        hist = []

        def mk(ti, ops):
            def fn():
                for op in ops:
                    rec = {"thread": ti, "op": op[0], "arg": op[1] if len(op) > 1 else None}
                    rec["call"] = next(clock)
                    try:
                        if op[0] == "deliver":
                            C("deliver")(p, op[1])
                            rec["res"] = ("val", None)
                        elif op[0] == "deref":
                            rec["res"] = ("val", C("deref")(p))
                        elif op[0] == "deref-timeout":
                            rec["res"] = ("val", C("deref")(p, 5, "TIMEOUT"))
                        elif op[0] == "realized?":
                            rec["res"] = ("val", bool(p.is_realized))
                    except Exception as e:
                        rec["res"] = ("exc", type(e).__name__)
                    rec["ret"] = next(clock)
                    hist.append(rec)
            return fn

        codes = sched.code_objects(*cls_codes(Promise), *core_fns)
        s = sched.Sched([mk(i, ops) for i, ops in enumerate(roles)], codes, chooser, max_steps=8000)
        s.run()
        return s, hist, p

    def judge_promise(s, hist, p, roles, case, label):
        nsw = sum(1 for i in range(1, len(s.trace)) if s.trace[i][0] != s.trace[i - 1][0])
        out.ev(("promise", label, hash(s.schedule_id())) if nsw else None)
        out.count("context_switches", nsw)
        has_deliver = any(op[0] == "deliver" for ops in roles for op in ops)
        if s.stuck:
            if s.stuck["reason"].startswith("deadlock"):
                # a blocking deref with no deliver in the scenario legitimately waits for ever; scenarios always contain a deliver
                out.violation("C13/promise/deadlock-blocking-deref-never-woken", {"stuck": s.stuck, "history": sorted(hist, key=lambda r: r["call"])}, case)
            elif s.stuck["reason"].startswith("step bound"):
                out.violation("C13/promise/step-bound-exceeded", {"stuck": s.stuck}, case)
            else:
                out.incon("scheduler lost a thread: " + s.stuck["reason"], case)
            return
        for t in s.ts:
            if t.exc is not None:
                out.violation(f"C13/harness-thread-died/{type(t.exc).__name__}", {"exc": repr(t.exc)[:200]}, case)
                return
        H = sorted(hist, key=lambda r: r["call"])
        delivers = [r for r in H if r["op"] == "deliver"]
        got = [r for r in H if r["op"] in ("deref", "deref-timeout") and r["res"][0] == "val" and r["res"][1] != "TIMEOUT"]
        for r in H:
            if r["res"][0] == "exc":
                out.violation(f"C13/promise/{r['op']}-raises-{r['res'][1]}", {"history": H}, case)
                return
        vals = {r["res"][1] for r in got}
        if len(vals) > 1:
            out.violation("C13/promise/derefs-return-different-values", {"history": H}, case)
            return
        final = p.deref(0, "UNDELIVERED") if hasattr(p, "deref") else None
        if vals:
            v = next(iter(vals))
            if final != v:
                out.violation("C13/promise/value-changed-after-deref", {"history": H, "final": final}, case)
                return
            winners = [d for d in delivers if d["arg"] == v]
            if not winners:
                out.violation("C13/promise/deref-returned-undelivered-value", {"history": H}, case)
                return
            w = winners[0]
            for r in got:
                if r["ret"] < w["call"]:
                    out.violation("C13/promise/deref-returned-before-its-value-was-delivered", {"history": H}, case)
                    return
            for d in delivers:
                if d is not w and d["ret"] < w["call"]:
                    out.violation("C13/promise/later-deliver-overwrote-an-earlier-one", {"history": H, "winner": w, "earlier": d}, case)
                    return
        elif delivers and final == "UNDELIVERED":
            out.violation("C13/promise/delivered-value-lost", {"history": H}, case)
            return
        elif delivers:
            w = [d for d in delivers if d["arg"] == final]
            if not w:
                out.violation("C13/promise/final-value-was-never-delivered", {"history": H, "final": final}, case)
                return
            for d in delivers:
                if d is not w[0] and d["ret"] < w[0]["call"]:
                    out.violation("C13/promise/later-deliver-overwrote-an-earlier-one", {"history": H, "winner": w[0], "earlier": d}, case)
                    return
        for r in H:
            if r["op"] == "deref-timeout" and r["res"] == ("val", "TIMEOUT"):
                if any(d["ret"] < r["call"] for d in delivers):
                    out.violation("C13/promise/timeout-value-although-delivered-before-deref", {"history": H}, case)
                    return
                out.count("timed_deref_timeouts")
        # realized? monotone and true after any deliver returned
        seen_true = None
        for r in H:
            if r["op"] == "realized?":
                if r["res"][1]:
                    seen_true = r if seen_true is None else seen_true
                else:
                    if seen_true is not None and seen_true["ret"] < r["call"]:
                        out.violation("C13/promise/realized-not-monotone", {"history": H}, case)
                        return
                    if any(d["ret"] < r["call"] for d in delivers):
                        out.violation("C13/promise/not-realized-after-deliver-returned", {"history": H}, case)
                        return
        out.count("promise_histories_ok")

    def gen_roles():
        n = rnd.randint(2, 4)
        roles = []
        vals = itertools.count(1)
        # deliverer threads never block (deliver / timed deref / realized?); reader threads may block in deref.
        # Thread 0 is always a deliverer with at least one deliver, so every blocking deref is eventually woken.
        for i in range(n):
            deliverer = i == 0 or rnd.random() < 0.5
            ops = []
            for _ in range(rnd.randint(1, 3)):
                k = rnd.choice(["deliver", "deliver", "deref-timeout", "realized?"] if deliverer else ["deref", "deref", "deref-timeout", "realized?"])
                ops.append(("deliver", "v%d" % next(vals)) if k == "deliver" else (k,))
            if i == 0 and not any(o[0] == "deliver" for o in ops):
                ops.append(("deliver", "v0"))
            roles.append(ops)
        return roles

    if "replay" in spec:
        c = spec["replay"]
        if c["kind"] == "delay":
            s, hist, events, d = delay_scenario(c["threads"], c["body"], sched.replay_chooser(c["choices"]), c["via"])
            judge_delay(s, hist, events, d, c, "replay")
        elif c["kind"] == "promise":
            roles = [[tuple(op) for op in ops] for ops in c["roles"]]
            s, hist, p = promise_scenario(roles, sched.replay_chooser(c["choices"]))
            judge_promise(s, hist, p, roles, c, "replay")
        elif c["kind"] == "future":
            future_runs(1, c.get("mode"), c.get("body"))
        return

    def future_runs(n, only_mode=None, only_body=None):
        import sys
        import threading

        old = sys.getswitchinterval()
        sys.setswitchinterval(1e-6)
        try:
            for it in range(n):
                mode = only_mode or rnd.choice(["deref-before-start", "deref-during", "deref-after", "racing-derefs"])
                bodyk = only_body or rnd.choice(["value", "raise-ValueError", "raise-KeyError", "nil"])
                started, release = threading.Event(), threading.Event()
                token = ("fut-value", it)

                def body():
                    started.set()
                    release.wait(20)
                    if bodyk == "value":
                        return token
                    if bodyk == "nil":
                        return None
                    raise (ValueError if bodyk == "raise-ValueError" else KeyError)("body failed")

                samples = []
                if mode == "deref-after":
                    release.set()
                fut = C("future-call")(body)
                samples.append(bool(C("realized?")(fut)))
                results = []

                def derefer():
                    try:
                        results.append(("val", C("deref")(fut)))
                    except Exception as e:
                        results.append(("exc", type(e).__name__))

                ths = [threading.Thread(target=derefer) for _ in range(3 if mode == "racing-derefs" else 1)]
                if mode == "deref-after":
                    try:
                        fut.deref(20, None)
                    except Exception:
                        pass
                if mode == "deref-during":
                    started.wait(20)
                [t.start() for t in ths]
                tv = C("deref")(fut, 1, "TIMEOUT") if mode != "deref-after" else None
                samples.append(bool(C("realized?")(fut)))
                release.set()
                [t.join(30) for t in ths]
                samples.append(bool(C("realized?")(fut)))
                samples.append(bool(C("future-done?")(fut)))
                out.ev(("future", mode, bodyk, it))
                case = {"kind": "future", "mode": mode, "body": bodyk}
                want = ("val", token) if bodyk == "value" else (("val", None) if bodyk == "nil" else ("exc", bodyk.split("-")[1]))
                if len(results) != len(ths):
                    out.violation("C13/future/deref-never-returned", {"mode": mode, "body": bodyk, "results": results}, case)
                    continue
                for r in results:
                    if r != want:
                        out.violation(f"C13/future/deref-outcome-differs-from-body/{bodyk}", {"mode": mode, "expected": want, "got": r}, case)
                        break
                if tv not in (None, "TIMEOUT") and mode != "deref-after":
                    out.violation("C13/future/timed-deref-returned-a-value-before-the-body-finished", {"mode": mode, "got": repr(tv)}, case)
                seen = False
                for smp in samples:
                    if smp:
                        seen = True
                    elif seen:
                        out.violation("C13/future/realized-not-monotone", {"samples": samples}, case)
                        break
                if not samples[-1] or not samples[-2]:
                    out.violation("C13/future/not-realized-after-deref-returned", {"samples": samples}, case)
                if it < 2:
                    out.sample({"future_mode": mode, "body": bodyk, "results": results, "realized_samples": samples})
        finally:
            sys.setswitchinterval(old)

    kind = spec["kind"]
    if kind == "delay-random":
        for it in range(spec["n"]):
            nth = rnd.randint(2, 4)
            bk = rnd.choice(["plain", "plain", "throw-once"])
            via = rnd.choice(["force", "deref", "method"])
            r2 = random.Random(rnd.getrandbits(32))
            s, hist, events, d = delay_scenario(nth, bk, sched.random_chooser(r2, rnd.choice([0.2, 0.5, 0.8])), via)
            judge_delay(s, hist, events, d, {"kind": "delay", "threads": nth, "body": bk, "via": via, "choices": [x[1] for x in s.decisions]}, "random")
            if it < 2:
                out.sample({"delay_threads": nth, "body": bk, "history": hist, "body_events": [(e[2], e[3]) for e in sorted(events)]})
            out.maybe_flush()
    elif kind == "promise-random":
        for it in range(spec["n"]):
            roles = gen_roles()
            r2 = random.Random(rnd.getrandbits(32))
            s, hist, p = promise_scenario(roles, sched.random_chooser(r2, rnd.choice([0.2, 0.5, 0.8])))
            judge_promise(s, hist, p, roles, {"kind": "promise", "roles": roles, "choices": [x[1] for x in s.decisions]}, "random")
            if it < 2:
                out.sample({"promise_roles": roles, "history": sorted(hist, key=lambda r: r["call"])})
            out.maybe_flush()
    elif kind in ("delay-bounded", "promise-bounded"):
        deadline = time.time() + spec["budget_s"]
        n = 0
        if kind == "delay-bounded":
            def make_run(chooser):
                s, hist, events, d = delay_scenario(3, "plain", chooser, "deref")
                s._j = (hist, events, d)
                return s
        else:
            roles = [[("deref",)], [("deliver", "a"), ("realized?",)], [("deliver", "b"), ("deref-timeout",)]]

            def make_run(chooser):
                s, hist, p = promise_scenario(roles, chooser)
                s._j = (hist, p)
                return s
        for s in sched.explore_bounded(make_run, spec["max_preemptions"], spec["max_schedules"], deadline):
            n += 1
            if kind == "delay-bounded":
                judge_delay(s, s._j[0], s._j[1], s._j[2], {"kind": "delay", "threads": 3, "body": "plain", "via": "deref", "choices": [x[1] for x in s.decisions]}, "bounded")
            else:
                judge_promise(s, s._j[0], s._j[1], roles, {"kind": "promise", "roles": roles, "choices": [x[1] for x in s.decisions]}, "bounded")
            out.maybe_flush()
        out.setx(kind.replace("-", "_"), {"schedules": n, "enumeration_complete": not (n >= spec["max_schedules"] or time.time() > deadline), "max_preemptions": spec["max_preemptions"]})
    elif kind == "future":
        future_runs(spec["n"])
