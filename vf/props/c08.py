"""C08 — calls bind arguments to the right arity however the call is made.

Monitor: every arity signature (fixed arities within 0..4 plus an optional variadic arity) is compiled to a function whose
bodies return [arity-tag p1 .. pk rest] and bump a body-entry counter; it is called direct, through its Var, through apply
(k leading args + finite / infinite lazy tail with a realization counter) and through partial, with 0..8 arguments. The
reference (ref_call) says which arity must run and what each parameter holds, or that an arity error must be raised before
any body runs. Recur: constant Python stack depth sampled inside loop and fn recur bodies for 10^4..10^6 iterations.
"""
from __future__ import annotations

import itertools
import random
import sys


def plan(tier, seed):
    q = tier == "quick"
    shards = []
    n = 8 if q else 16
    for i in range(n):
        shards.append({"kind": "sigs", "part": i, "parts": n, "stride": 6 if q else 1})
    shards.append({"kind": "recur", "iters": 10000 if q else 1000000})
    return {
        "level": "exploration",
        "exhaustive": not q,
        "rule": "all 2^5 x 6 arity signatures (fixed arities subset of 0..4, optional variadic arity with 0..4 fixed params >= max fixed arity) x call shapes (direct, Var, apply with 0..3 leading args and a "
        "finite tail of length 0..6 or an infinite tail, partial of 0..3 args then call / apply) x argument counts 0..8 x {inlining, var indirection} settings; quick runs a 1/6 stratified sample "
        "(every signature, every shape), thorough all. loop and fn recur (incl. variadic recur) with 10^4 (thorough 10^6) iterations and stack-depth sampling. distinct = distinct (signature, shape, "
        "argument count, option set); non-trivial = calls with at least one argument.",
        "shards": shards,
        "min_evaluations": 3000,
        "watchdog_s": 1200 if q else 3400,
        "assumptions": ["the class of the arity error is not prescribed, only that it is raised before any body code runs", "compile-time arity warnings are ignored"],
    }


def signatures():
    sigs = []
    for mask in range(32):
        fixed = [k for k in range(5) if mask >> k & 1]
        for var in [None, 0, 1, 2, 3, 4]:
            if not fixed and var is None:
                continue
            if var is not None and fixed and var < max(fixed):
                continue  # variadic arity must have at least as many fixed params as the largest fixed arity
            if var is not None and var in fixed and False:
                continue
            sigs.append((tuple(fixed), var))
    return sigs


def ref_call(sig, args):
    """expected outcome: ('ok', [tag, p1.., rest]) or ('arity-error',)"""
    fixed, var = sig
    n = len(args)
    if n in fixed:
        return ("ok", ["fixed%d" % n] + list(args))
    if var is not None and n >= var:
        rest = list(args[var:])
        return ("ok", ["var%d" % var] + list(args[:var]) + [rest if rest else None])
    return ("arity-error",)


def fn_text(sig, name="f"):
    fixed, var = sig
    ars = []
    for k in fixed:
        ps = " ".join("p%d" % i for i in range(k))
        ars.append(f"([{ps}] (body-entered) [:fixed{k} {ps}])")
    if var is not None:
        ps = " ".join("p%d" % i for i in range(var))
        ars.append(f"([{ps} & more] (body-entered) [:var{var} {ps} more])")
    return f"(fn {name} " + " ".join(ars) + ")"


def worker(spec, out):
    from vf import boot

    b = boot.init()
    rnd = random.Random(spec["seed"])
    C = b.core
    K, V = b.kw.keyword, b.vec.vector
    from basilisp.lang import interfaces as I

    entered = [0]

    def norm(res):
        """[:tag p.. rest] -> python list with rest as list/None"""
        o = []
        for x in res:
            if isinstance(x, b.kw.Keyword):
                o.append(x.name)
            elif x is None or isinstance(x, (int, str)):
                o.append(x)
            elif isinstance(x, (I.ISeq, I.IPersistentList, I.IPersistentVector)):
                o.append(list(itertools.islice(iter(x), 12)))  # the rest seq may be infinite
            else:
                o.append(repr(x))
        return o

    OPTS = [dict(), dict(inline_functions=False), dict(use_var_indirection=True), dict(use_var_indirection=True, inline_functions=False, generate_auto_inlines=False)]
    compiled = {}

    def get_fn(sig, oi):
        key = (sig, oi)
        if key not in compiled:
            ns = b.fresh_ns("vf.c08.")
            b.intern(ns, "body-entered", lambda: entered.__setitem__(0, entered[0] + 1))
            f = b.eval_str(f"(def the-fn {fn_text(sig)}) the-fn", ns=ns, opts=b.opts(**OPTS[oi]))
            compiled[key] = (ns, f)
            if len(compiled) > 400:
                k0 = next(iter(compiled))
                b.drop_ns(compiled.pop(k0)[0])
        return compiled[key]

    class CountingTail:
        """a lazy argument tail that counts how many cells were realized; finite (length n) or infinite"""

        def __init__(self, start, n):
            self.start, self.n, self.realized = start, n, 0

        def seq(self):
            me = self
            mk = b.eval_str("(fn mk [i n p] (lazy-seq (when (or (nil? n) (< i n)) (cons (p i) (mk (inc i) n p)))))", ns=scratch)

            def p(i):
                me.realized = max(me.realized, i + 1)
                return me.start + i

            return mk(0, self.n, p)

    scratch = b.fresh_ns("vf.c08s.")

    def call_shape(shape, ns, f, args, oi):
        """perform the call; returns ('ok', normalized) | ('exc', classname) ; plus extras"""
        extra = {}
        kind = shape[0]
        if kind == "direct":
            text = "(the-fn " + " ".join(str(a) for a in args) + ")"
            run = lambda: b.eval_str(text, ns=ns, opts=b.opts(**OPTS[oi]))
        elif kind == "var":
            text = "(#'the-fn " + " ".join(str(a) for a in args) + ")"
            run = lambda: b.eval_str(text, ns=ns, opts=b.opts(**OPTS[oi]))
        elif kind == "pycall":
            run = lambda: f(*args)
        elif kind == "apply":
            lead = shape[1]
            tail_len = len(args) - lead
            tail = CountingTail(args[lead] if tail_len > 0 else 0, tail_len)
            extra["tail"] = tail
            run = lambda: C("apply")(f, *args[:lead], tail.seq())
        elif kind == "apply-inf":
            lead = shape[1]
            tail = CountingTail(lead, None)
            extra["tail"] = tail
            extra["infinite"] = True
            run = lambda: C("apply")(f, *args[:lead], tail.seq())
        elif kind == "partial":
            k = shape[1]
            run = lambda: C("partial")(f, *args[:k])(*args[k:])
        elif kind == "partial-apply":
            k = shape[1]
            run = lambda: C("apply")(C("partial")(f, *args[:k]), V(args[k:]))
        entered[0] = 0
        try:
            res = run()
            if "tail" in extra:
                extra["realized_by_call"] = extra["tail"].realized  # measured before the harness looks at the rest seq
            return ("ok", norm(res)), extra
        except RecursionError:
            return ("exc", "RecursionError"), extra
        except Exception as e:
            return ("exc", type(e).__name__), extra

    def check(sig, shape, nargs, oi):
        fixed, var = sig
        args = list(range(100, 100 + nargs))
        ns, f = get_fn(sig, oi)
        case = {"kind": "call", "sig": [list(fixed), var], "shape": list(shape), "nargs": nargs, "opt": oi}
        if shape[0] == "apply-inf":
            # infinite tail: only meaningful when the function is variadic
            if var is None:
                return
            lead = shape[1]
            if lead > 3:
                return
        if shape[0] in ("apply", "partial", "partial-apply") and shape[1] > nargs:
            return
        got, extra = call_shape(shape, ns, f, args, oi)
        out.ev((sig, shape, nargs, oi) if nargs else None)
        out.count("shape_" + shape[0])
        if shape[0] == "apply-inf":
            lead = shape[1]
            tail = extra["tail"]
            if got[0] != "ok":
                out.violation(f"C08/apply-infinite/raises-{got[1]}", {"fn": fn_text(sig), "lead": lead, "got": got}, case)
                return
            res = got[1]
            supplied = args[:lead] + [lead + i for i in range(var + 13)]  # leading args, then the infinite tail lead, lead+1, ..
            lead = len(args[:lead])
            if res[0] != "var%d" % var or res[1 : 1 + var] != supplied[:var] or res[1 + var] != supplied[var : var + 12]:
                out.violation("C08/apply-infinite/wrong-binding", {"fn": fn_text(sig), "lead": lead, "got": str(res)[:200]}, case)
                return
            need = max(0, var - lead) + 1
            out.count("laziness_checks")
            if extra["realized_by_call"] > need + 1:
                out.violation("C08/apply/realizes-more-of-the-argument-seq-than-needed", {"fn": fn_text(sig), "lead": lead, "realized": extra["realized_by_call"], "needed_at_most": need + 1}, case)
            return
        want = ref_call(sig, args)
        if want[0] == "arity-error":
            if got[0] != "exc":
                out.violation(f"C08/arity-error/not-raised/{shape[0]}", {"fn": fn_text(sig), "args": nargs, "got": str(got)[:200]}, case)
            elif entered[0] != 0:
                out.violation(f"C08/arity-error/body-ran-before-error/{shape[0]}", {"fn": fn_text(sig), "args": nargs, "bodies_entered": entered[0], "exc": got[1]}, case)
            elif got[1] not in ("TypeError", "RuntimeException", "ArityException", "CompilerException"):
                out.violation(f"C08/arity-error/unexpected-class-{got[1]}/{shape[0]}", {"fn": fn_text(sig), "args": nargs}, case)
            out.count("arity_errors_expected")
            return
        if got[0] != "ok":
            out.violation(f"C08/binding/raises-{got[1]}/{shape[0]}", {"fn": fn_text(sig), "args": nargs, "expected": want[1]}, case)
            return
        if got[1] != want[1]:
            out.violation(f"C08/binding/wrong-arity-or-values/{shape[0]}", {"fn": fn_text(sig), "args": nargs, "expected": want[1], "got": got[1]}, case)
            return
        if entered[0] != 1:
            out.violation(f"C08/binding/body-entered-{entered[0]}-times/{shape[0]}", {"fn": fn_text(sig), "args": nargs}, case)
            return
        if shape[0] == "apply" and extra["tail"].n > 0:
            # laziness: binding the fixed parameters and testing for more needs at most (params - lead) + 1 cells
            tail = extra["tail"]
            lead = shape[1]
            fixed_params = var if (nargs not in fixed and var is not None) else nargs
            if nargs in fixed:
                need = tail.n  # a fixed arity consumes all arguments
            else:
                need = max(0, var - lead) + 1
            out.count("laziness_checks")
            rz = extra["realized_by_call"]
            if rz > max(need, max(fixed or [0]) + 1 - lead) + 1 and rz > need + 1:
                out.violation("C08/apply/realizes-more-of-the-argument-seq-than-needed", {"fn": fn_text(sig), "lead": lead, "tail_len": tail.n, "realized": rz, "needed_at_most": need + 1}, case)

    SHAPES = [("direct",), ("var",), ("pycall",)] + [("apply", k) for k in range(4)] + [("apply-inf", k) for k in range(4)] + [("partial", k) for k in range(4)] + [("partial-apply", k) for k in range(4)]

    if "replay" in spec:
        c = spec["replay"]
        if c["kind"] == "call":
            check((tuple(c["sig"][0]), c["sig"][1]), tuple(c["shape"]), c["nargs"], c["opt"])
        else:
            recur_checks(b, out, c.get("iters", 10000))
        return

    if spec["kind"] == "sigs":
        sigs = signatures()
        out.setx("signatures", len(sigs))
        idx = 0
        for si, sig in enumerate(sigs):
            if si % spec["parts"] != spec["part"]:
                continue
            for shape in SHAPES:
                for nargs in range(9):
                    idx += 1
                    # stratified sample: every (signature, shape) pair is visited; argument counts rotate
                    if spec["stride"] > 1 and (idx + si) % spec["stride"] != 0 and nargs not in (0, (si + len(shape)) % 9):
                        continue
                    check(sig, shape, nargs, (idx + si) % len(OPTS) if shape[0] in ("direct", "var") else si % len(OPTS))
            if si < 2 * spec["parts"]:
                out.sample({"signature": fn_text(sig), "example": ref_call(sig, [100, 101])})
            out.maybe_flush()
    else:
        recur_checks(b, out, spec["iters"])


def recur_checks(b, out, iters):
    import inspect

    ns = b.fresh_ns("vf.c08r.")
    depths = []

    def depth():
        d = 0
        f = sys._getframe()
        while f is not None:
            d += 1
            f = f.f_back
        depths.append(d)
        return None

    b.intern(ns, "depth", depth)
    progs = {
        "loop-recur": f"(loop [i 0 acc 0] (when (or (= i 1) (= i {iters // 2}) (= i {iters - 1})) (depth)) (if (< i {iters}) (recur (inc i) (+ acc i)) acc))",
        "fn-recur": f"((fn [i acc] (when (or (= i 1) (= i {iters // 2}) (= i {iters - 1})) (depth)) (if (< i {iters}) (recur (inc i) (+ acc i)) acc)) 0 0)",
        "fn-recur-variadic": f"((fn [i & more] (when (or (= i 1) (= i {iters // 2}) (= i {iters - 1})) (depth)) (if (< i {iters}) (recur (inc i) more) (first more))) 0 7 8)",
        "multi-arity-recur": f"((fn ([i] :one) ([i acc] (when (or (= i 1) (= i {iters // 2}) (= i {iters - 1})) (depth)) (if (< i {iters}) (recur (inc i) (+ acc 1)) acc))) 0 0)",
        "loop-in-fn-in-loop": f"(loop [j 0] (if (< j 2) (do ((fn [i] (when (or (= i 1) (= i {iters - 1})) (depth)) (if (< i {iters}) (recur (inc i)) i)) 0) (recur (inc j))) :done))",
    }
    want = {"loop-recur": sum(range(iters)), "fn-recur": sum(range(iters)), "fn-recur-variadic": 7, "multi-arity-recur": iters, "loop-in-fn-in-loop": b.kw.keyword("done")}
    for name, text in progs.items():
        for oi, opts in enumerate([dict(), dict(use_var_indirection=True, inline_functions=False)]):
            del depths[:]
            out.ev(("recur", name, oi, iters))
            case = {"kind": "recur", "iters": iters}
            try:
                r = b.eval_str(text, ns=ns, opts=b.opts(**opts))
            except RecursionError:
                out.violation(f"C08/recur/stack-overflow/{name}", {"program": text[:200], "iterations": iters}, case)
                continue
            except Exception as e:
                out.violation(f"C08/recur/raises-{type(e).__name__}/{name}", {"program": text[:200], "exc": repr(e)[:200]}, case)
                continue
            if r != want[name]:
                out.violation(f"C08/recur/wrong-result/{name}", {"program": text[:200], "got": repr(r)[:80], "expected": repr(want[name])[:80]}, case)
            if len(set(depths)) > 1:
                out.violation(f"C08/recur/stack-grows-with-iterations/{name}", {"program": text[:200], "frame_depths_sampled": depths}, case)
            out.count("recur_depth_samples", len(depths))
    out.sample({"recur_program": progs["fn-recur-variadic"], "depths": depths})
