"""C06 — lazy sequences realize each element once, only on demand, safely shared.

Monitors
  single-threaded  consumption histories over lazy-seq, map, filter, concat, iterate, take, seqs over Python iterators with
                   counting / throwing / re-entrant producers: at-most-once, agreement with the model, on-demand (realized <=
                   demanded + 1, independent of the input length), exception propagation without corrupting the sequence
  multi-threaded   2-4 real threads walking one sequence whose producers block on events, sleep (releasing the GIL), yield or
                   throw; each scenario runs in its own child interpreter with faulthandler armed: liveness is judged by an
                   outer watchdog that must fire 3 times out of 3 to count (the interpreter itself wedges when the native
                   mutex is taken with the GIL held), producer counts and per-thread views by the same oracles
"""
from __future__ import annotations

import itertools
import json
import os
import random
import subprocess
import sys
import time


def plan(tier, seed):
    q = tier == "quick"
    shards = []
    for i in range(4 if q else 12):
        shards.append({"kind": "single", "n": 700 if q else 9000})
    for i in range(6 if q else 12):
        shards.append({"kind": "threads", "n": 14 if q else 150})
    return {
        "level": "exploration",
        "rule": "single-threaded: random consumption histories (first/rest/next/seq/count/nth/iteration/doall/take) over 9 kinds of lazy sources with counting producers, throwing cells and "
        "re-entrant producers; multi-threaded: 7 scenario families (blocking producer + second consumer, sleeping producers, throwing producers, racing walkers, re-entrant producer, mixed "
        "first/rest/count, nested: consumers entering one inner sequence directly and through lazy-seq / lazy-cat / concat wrappers while its producer is parked) x random thread counts, cell counts and delays, each in its own child interpreter. distinct = distinct (source kind, consumer history) or (scenario, parameters, observed "
        "arrival order); non-trivial = at least two cells demanded.",
        "shards": shards,
        "min_evaluations": 300,
        "watchdog_s": 1200 if q else 3400,
        "assumptions": ["after a producer exception both retry and re-raise are accepted; an empty or truncated view is not", "lock-order inversions between two different lazy seqs are not driven",
                        "a wedged child counts as a violation only if the outer watchdog fires 3 times out of 3"],
    }


# =====================================================================================================================
# child interpreter: one multi-threaded scenario
# =====================================================================================================================
def child_main(sc):
    import faulthandler
    import threading

    faulthandler.enable()
    faulthandler.dump_traceback_later(sc.get("dump_after", 20), exit=False)
    from vf import boot

    b = boot.init()
    C = b.core
    ns = b.fresh_ns("vf.c06c.")
    mk = b.eval_str("(fn mk [i n p] (lazy-seq (when (< i n) (cons (p i) (mk (inc i) n p)))))", ns=ns)
    rnd = random.Random(sc["seed"])
    n = sc["cells"]
    calls = [0] * n
    fails = [0] * n
    gate = threading.Event()
    in_producer = threading.Event()
    lock = threading.Lock()
    kind = sc["scenario"]
    throw_at = set(sc.get("throw_at", []))
    sys.setswitchinterval(1e-6)
    the_seq = [None]

    def producer(i):
        with lock:
            calls[i] += 1
            attempt = calls[i]
        if kind in ("blocking", "nested") and i == sc.get("block_at", 1) and attempt == 1:
            in_producer.set()
            gate.wait(15)
        if kind in ("sleeping", "racing", "mixed", "throwing"):
            time.sleep(rnd.choice([0, 0, 0.0002, 0.001]))
        if kind == "reentrant" and i == 2 and attempt == 1:
            # touch the sequence being produced: must not deadlock and must not recompute earlier cells
            s = the_seq[0]
            if s is not None:
                C("first")(s)
        if i in throw_at and attempt == 1:
            with lock:
                fails[i] += 1
            raise ValueError("producer %d failed" % i)
        return ("cell", i)

    if sc.get("source", "lazy-seq") == "map":
        s = C("map")(producer, C("range")(n))
    else:
        s = mk(0, n, producer)
    the_seq[0] = s
    views = {}
    errors = {}
    entries = {}
    if kind == "nested":
        # consumers enter the shared structure at different points: some walk the inner sequence itself, others reach it through a
        # wrapper whose producer returns it (lazy-seq / lazy-cat / concat idioms); markers :h / :t tell the views apart
        H, T = ("cell", "h"), ("cell", "t")
        mkentry = {
            "tail": lambda: s,
            "wrap": b.eval_str("(fn [t] (lazy-seq t))", ns=ns),
            "wrap2": b.eval_str("(fn [t] (lazy-seq (lazy-seq t)))", ns=ns),
            "cat-front": b.eval_str("(fn [t h] (lazy-cat [h] t))", ns=ns),
            "cat-back": b.eval_str("(fn [t x] (lazy-cat t [x]))", ns=ns),
            "concat-back": b.eval_str("(fn [t x] (concat t [x]))", ns=ns),
            "cons-front": b.eval_str("(fn [t h] (lazy-seq (cons h t)))", ns=ns),
        }
        for i, e in enumerate(sc["entries"]):
            f = mkentry[e]
            entries["w%d" % i] = s if e == "tail" else (f(s) if e in ("wrap", "wrap2") else f(s, H if e in ("cat-front", "cons-front") else T))

    def walker(name, how):
        view = []
        s = entries.get(name, the_seq[0])
        try:
            if how == "iter":
                for x in s:
                    view.append(x)
            elif how == "first-rest":
                cur = s
                while True:
                    sq = C("seq")(cur)
                    if sq is None:
                        break
                    view.append(C("first")(sq))
                    cur = C("rest")(sq)
            elif how == "next":
                cur = C("seq")(s)
                while cur is not None:
                    view.append(C("first")(cur))
                    cur = C("next")(cur)
            elif how == "count":
                view.append(("count", C("count")(s)))
            elif how == "doall":
                view = list(C("doall")(s))
            elif how == "nth":
                for k in range(n):
                    view.append(C("nth")(s, k))
        except Exception as e:
            errors[name] = (type(e).__name__, len(view))
            # retry once after an exception: the sequence must not have silently changed contents
            try:
                again = list(s)
                errors[name] = errors[name] + (("retry-view", again),)
            except Exception as e2:
                errors[name] = errors[name] + (("retry-exc", type(e2).__name__),)
        views[name] = view

    hows = sc["walkers"]
    ths = [threading.Thread(target=walker, args=("w%d" % i, h), daemon=True) for i, h in enumerate(hows)]
    t0 = time.time()
    if kind in ("blocking", "nested"):
        ths[0].start()
        in_producer.wait(10)
        for t in ths[1:]:
            t.start()
        time.sleep(sc.get("hold", 0.05))
        gate.set()
    else:
        for t in ths:
            t.start()
    for t in ths:
        t.join(max(0.1, 25 - (time.time() - t0)))
    alive = [t.name for t in ths if t.is_alive()]
    faulthandler.cancel_dump_traceback_later()
    json.dump({"calls": calls, "fails": fails, "views": {k: [list(x) if isinstance(x, tuple) else x for x in v] for k, v in views.items()},
               "errors": {k: [list(x) if isinstance(x, tuple) else x for x in v] for k, v in errors.items()}, "alive": alive, "wall": round(time.time() - t0, 3)}, sys.stdout)
    sys.stdout.flush()
    os._exit(0)


# =====================================================================================================================
# worker
# =====================================================================================================================
def worker(spec, out):
    rnd = random.Random(spec["seed"])
    if "replay" in spec:
        c = spec["replay"]
        if c["kind"] == "threads":
            run_thread_scenario(out, c["scenario"])
        else:
            single_thread(out, rnd, 1, only=c)
        return
    if spec["kind"] == "single":
        single_thread(out, rnd, spec["n"])
    else:
        for it in range(spec["n"]):
            fam = ["blocking", "sleeping", "throwing", "racing", "reentrant", "mixed", "nested"][it % 7]
            cells = rnd.randint(3, 6)
            sc = {"scenario": fam, "cells": cells, "seed": rnd.getrandbits(32), "source": rnd.choice(["lazy-seq", "lazy-seq", "map"])}
            nw = rnd.randint(2, 4)
            if fam == "nested":
                sc["source"] = "lazy-seq"
                sc["block_at"] = rnd.choice([0, 0, 1, rnd.randrange(cells)])
                sc["hold"] = rnd.choice([0.01, 0.05, 0.2])
                sc["entries"] = [rnd.choice(["wrap", "wrap2", "cat-front", "cat-back", "concat-back", "cons-front", "tail"]) for _ in range(nw)]
                if "tail" not in sc["entries"][1:]:
                    sc["entries"][1] = "tail"
                sc["walkers"] = [rnd.choice(["iter", "first-rest", "next", "doall"]) for _ in range(nw)]
            elif fam == "blocking":
                sc["block_at"] = rnd.randrange(cells)
                sc["hold"] = rnd.choice([0.01, 0.05, 0.2])
                sc["walkers"] = [rnd.choice(["iter", "first-rest", "next", "doall"]) for _ in range(nw)]
            elif fam == "throwing":
                sc["throw_at"] = sorted(rnd.sample(range(cells), rnd.randint(1, 2)))
                sc["walkers"] = [rnd.choice(["iter", "first-rest", "next"]) for _ in range(nw)]
            elif fam == "mixed":
                sc["walkers"] = [rnd.choice(["iter", "first-rest", "next", "count", "doall", "nth"]) for _ in range(nw)]
            else:
                sc["walkers"] = [rnd.choice(["iter", "first-rest", "next", "doall"]) for _ in range(nw)]
            run_thread_scenario(out, sc)
            if it < 2:
                out.sample({"thread_scenario": sc})
            out.maybe_flush()


def _pdeath():
    from vf import build

    build.die_with_parent()


def run_child(sc, timeout=45):
    env = dict(os.environ)
    p = subprocess.Popen([sys.executable, "-m", "vf.props.c06", json.dumps(sc)], stdout=subprocess.PIPE, stderr=subprocess.PIPE, env=env, preexec_fn=_pdeath, cwd=os.path.dirname(os.path.dirname(os.path.dirname(os.path.abspath(__file__)))))
    try:
        so, se = p.communicate(timeout=timeout)
    except subprocess.TimeoutExpired:
        p.kill()
        so, se = p.communicate()
        return ("timeout", se.decode("utf-8", "replace")[-3000:])
    if p.returncode != 0:
        return ("crash", (se.decode("utf-8", "replace")[-2000:], p.returncode))
    try:
        return ("ok", json.loads(so.decode()))
    except Exception:
        return ("crash", (so.decode("utf-8", "replace")[-500:] + se.decode("utf-8", "replace")[-1500:], p.returncode))


WEDGED = {}


def run_thread_scenario(out, sc):
    case = {"kind": "threads", "scenario": sc}
    if WEDGED.get(sc["scenario"], 0) >= 1:
        out.count("scenarios_skipped_family_already_wedged")
        return
    st, res = run_child(sc, timeout=30)
    if st == "timeout":
        # the interpreter wedged (or the machine is overloaded): a verdict only if it reproduces 3/3
        reps = [run_child(sc, timeout=30)[0] for _ in range(2)]
        out.ev(("threads", sc["scenario"], "timeout"))
        if all(r == "timeout" for r in reps):
            WEDGED[sc["scenario"]] = WEDGED.get(sc["scenario"], 0) + 1
            out.violation(f"C06/liveness/interpreter-wedged/{sc['scenario']}", {"scenario": sc, "reproduced": "3/3", "stacks": res[-1500:]}, case)
        else:
            out.incon("child interpreter timed out once but not 3/3", case)
        return
    if st == "crash":
        # a child that died: a verdict only if it dies again in one of two further runs (an overloaded machine makes children
        # die in ways that say nothing about the sequence, e.g. while still booting when the armed faulthandler fires)
        out.ev(("threads", sc["scenario"], "crash"))
        reps = [run_child(sc, timeout=60)[0] for _ in range(2)]
        if "crash" in reps:
            out.violation(f"C06/harness-or-interpreter-crash/{sc['scenario']}", {"scenario": sc, "detail": str(res)[:600], "reproduced": reps}, case)
        else:
            out.incon("child interpreter died once (%s) and not again in 2 further runs" % str(res)[-200:], case)
        return
    n = sc["cells"]
    calls, fails, views, errors, alive = res["calls"], res["fails"], res["views"], res["errors"], res["alive"]
    order = tuple(sorted((k, len(v)) for k, v in views.items()))
    out.ev(("threads", sc["scenario"], json.dumps(sc, sort_keys=True), res["wall"] > 0))
    out.count("thread_scenarios_" + sc["scenario"])
    if alive:
        out.violation(f"C06/liveness/consumer-never-finished/{sc['scenario']}", {"scenario": sc, "threads_alive": alive, "calls": calls}, case)
        return
    want = [["cell", i] for i in range(n)]
    for i in range(n):
        if calls[i] > 1 + fails[i]:
            out.violation(f"C06/at-most-once/producer-ran-{'again-after-success' if True else ''}/{sc['scenario']}", {"scenario": sc, "cell": i, "calls": calls, "failed_attempts": fails}, case)
            return
    cells_want = want
    for name, view in views.items():
        how = sc["walkers"][int(name[1:])]
        err = errors.get(name)
        if sc["scenario"] == "nested":
            e = sc["entries"][int(name[1:])]
            want = ([["cell", "h"]] if e in ("cat-front", "cons-front") else []) + cells_want + ([["cell", "t"]] if e in ("cat-back", "concat-back") else [])
        if how == "count":
            if not err and view != [["count", n]]:
                out.violation(f"C06/agreement/count-differs/{sc['scenario']}", {"scenario": sc, "view": view}, case)
                return
            continue
        if err is None:
            if view != want:
                out.violation(f"C06/agreement/view-differs-from-model/{sc['scenario']}", {"scenario": sc, "walker": name, "how": how, "view": view, "expected": want, "calls": calls}, case)
                return
        else:
            # the consumer got the producer's exception: prefix must be right, and the sequence must not silently shrink afterwards
            if err[0] != "ValueError":
                out.violation(f"C06/exception/unexpected-{err[0]}/{sc['scenario']}", {"scenario": sc, "walker": name, "error": err}, case)
                return
            if view != want[: len(view)]:
                out.violation(f"C06/agreement/prefix-differs-from-model/{sc['scenario']}", {"scenario": sc, "walker": name, "view": view}, case)
                return
            retry = err[2] if len(err) > 2 else None
            if retry and retry[0] == "retry-view" and retry[1] != want:
                out.violation(f"C06/exception/sequence-silently-changed-after-producer-exception/{sc['scenario']}", {"scenario": sc, "walker": name, "view_after_exception": retry[1], "expected": want}, case)
                return
    if sc["scenario"] == "throwing" and not errors and any(fails):
        # every failed attempt must have surfaced in some consumer
        out.violation("C06/exception/producer-exception-swallowed", {"scenario": sc, "fails": fails, "views": views}, case)


def single_thread(out, rnd, n, only=None):
    from vf import boot

    b = boot.init()
    C = b.core
    ns = b.fresh_ns("vf.c06.")
    mk = b.eval_str("(fn mk [i n p] (lazy-seq (when (< i n) (cons (p i) (mk (inc i) n p)))))", ns=ns)
    V = b.vec.vector
    KINDS = ["lazy-seq", "map", "filter", "concat", "iterate", "take", "iterator-seq", "map2", "lazy-cat-nested"]

    for it in range(n):
        if only is not None:
            kind, length, consumers, throw_at, seed = only["source"], only["length"], only["consumers"], set(only["throw_at"]), only["seed"]
        else:
            kind = rnd.choice(KINDS)
            length = rnd.choice([3, 5, 8, 40])
            seed = rnd.getrandbits(32)
            throw_at = set(rnd.sample(range(length), 1)) if rnd.random() < 0.2 and kind in ("lazy-seq", "map") else set()
            consumers = []
            for _ in range(rnd.randint(1, 5)):
                k = rnd.choice(["first", "rest-chain", "next-chain", "nth", "count", "iter", "doall", "take", "seq", "realized?"])
                consumers.append([k, rnd.randint(0, length + 1)])
        case = {"kind": "single", "source": kind, "length": length, "consumers": consumers, "throw_at": sorted(throw_at), "seed": seed}
        calls = {}
        failed = set()
        maxprod = [-1]

        def p(i, calls=calls, failed=failed):
            calls[i] = calls.get(i, 0) + 1
            maxprod[0] = max(maxprod[0], i)
            if i in throw_at and i not in failed:
                failed.add(i)
                raise ValueError("producer failed")
            return i * 10

        # build the source and its model (list of values by position -> producing index)
        if kind == "lazy-seq":
            s, model, idx = mk(0, length, p), [i * 10 for i in range(length)], list(range(length))
        elif kind == "map":
            s, model, idx = C("map")(p, C("range")(length)), [i * 10 for i in range(length)], list(range(length))
        elif kind == "map2":
            s = C("map")(lambda a, c: p(a), C("range")(length), C("range")(length + 5))
            model, idx = [i * 10 for i in range(length)], list(range(length))
        elif kind == "filter":
            s = C("filter")(lambda v: v % 20 == 0, mk(0, length, p))
            idx = [i for i in range(length) if (i * 10) % 20 == 0]
            model = [i * 10 for i in idx]
        elif kind == "concat":
            k = length // 2
            s = C("concat")(mk(0, k, p), mk(k, length, p))
            model, idx = [i * 10 for i in range(length)], list(range(length))
        elif kind == "lazy-cat-nested":
            s = C("concat")(mk(0, 1, p), C("concat")(mk(1, 2, p), mk(2, length, p))) if length > 2 else mk(0, length, p)
            model, idx = [i * 10 for i in range(length)], list(range(length))
        elif kind == "iterate":
            cnt = {"n": 0}

            def f(x):
                cnt["n"] += 1
                p(cnt["n"])
                return x + 10

            s = C("take")(length, C("iterate")(f, 0))
            model, idx = [i * 10 for i in range(length)], list(range(length))
        elif kind == "take":
            s = C("take")(length, mk(0, length + 20, p))
            model, idx = [i * 10 for i in range(length)], list(range(length))
        elif kind == "iterator-seq":
            def gen():
                for i in range(length):
                    yield p(i)

            s = C("iterator-seq")(gen())
            model, idx = [i * 10 for i in range(length)], list(range(length))
        demanded = -1  # highest model position some consumer asked for
        ok = True
        out.ev((kind, length, json.dumps(consumers), sorted(throw_at)) if sum(c[1] for c in consumers) >= 2 else None)
        out.count("source_" + kind)

        def fail(key, wit):
            nonlocal ok
            ok = False
            wit.update({"source": kind, "length": length, "consumers": consumers, "throw_at": sorted(throw_at)})
            out.violation(key, wit, case)

        for ck, arg in consumers:
            if not ok:
                break
            try:
                if ck == "first":
                    got, want, d = C("first")(s), (model[0] if model else None), 0
                elif ck == "seq":
                    r = C("seq")(s)
                    got, want, d = (None if r is None else "nonempty"), (None if not model else "nonempty"), 0
                elif ck == "rest-chain":
                    cur, got = s, []
                    for _ in range(arg):
                        got.append(C("first")(cur))
                        cur = C("rest")(cur)
                    want, d = [(model[i] if i < len(model) else None) for i in range(arg)], arg - 1
                elif ck == "next-chain":
                    cur, got = C("seq")(s), []
                    for _ in range(arg):
                        if cur is None:
                            break
                        got.append(C("first")(cur))
                        cur = C("next")(cur)
                    want, d = model[:arg], min(arg, len(model))
                elif ck == "nth":
                    k = min(arg, max(0, len(model) - 1))
                    if not model:
                        continue
                    got, want, d = C("nth")(s, k), model[k], k
                elif ck == "count":
                    got, want, d = C("count")(s), len(model), len(model)
                elif ck == "iter":
                    got = list(itertools.islice(iter(s), arg))
                    want, d = model[:arg], min(arg, len(model)) - (0 if arg <= len(model) else 0)
                elif ck == "doall":
                    got, want, d = list(C("doall")(s)), model, len(model)
                elif ck == "take":
                    got, want, d = list(C("take")(arg, s)), model[:arg], min(arg, len(model)) - 1
                elif ck == "realized?":
                    continue
            except ValueError:
                out.count("producer_exceptions_propagated")
                # afterwards the sequence must still be whole: same exception again, or the value after a retry
                try:
                    whole = list(s)
                    if whole != model:
                        fail(f"C06/exception/sequence-silently-changed-after-producer-exception/{kind}", {"after": whole[:12], "expected": model[:12]})
                except ValueError:
                    pass
                break
            except Exception as e:
                fail(f"C06/consumer-raises-{type(e).__name__}/{kind}/{ck}", {"exc": repr(e)[:200]})
                break
            demanded = max(demanded, d)
            if got != want:
                fail(f"C06/agreement/{ck}-differs-from-model/{kind}", {"got": got if not isinstance(got, list) else got[:12], "expected": want if not isinstance(want, list) else want[:12]})
                break
            # on demand: nothing is computed beyond demanded + 1 model positions (independent of the length)
            if kind not in ("iterator-seq",):
                lim_pos = min(len(model) - 1, demanded + 1)
                lim_idx = idx[lim_pos] if model and lim_pos >= 0 else -1
                if kind == "filter":
                    # the filter must look at source cells up to the next match
                    lim_idx = idx[lim_pos] if lim_pos >= 0 else -1
                    if demanded + 1 >= len(model):
                        lim_idx = length
                if kind == "iterate":
                    lim_idx = demanded + 2
                if maxprod[0] > lim_idx + (1 if kind in ("concat", "lazy-cat-nested", "take") else 0):
                    fail(f"C06/on-demand/realized-beyond-demand/{kind}/{ck}", {"highest_cell_produced": maxprod[0], "highest_position_demanded": demanded, "allowed_cell": lim_idx})
                    break
        if ok:
            over = {i: c for i, c in calls.items() if c > 1 + (1 if i in failed else 0)}
            if over and kind != "iterate":
                fail(f"C06/at-most-once/producer-ran-more-than-once/{kind}", {"calls": over})
        if it < 2 and only is None:
            out.sample({"source": kind, "length": length, "consumers": consumers, "producer_calls": dict(sorted(calls.items())[:10])})
        out.maybe_flush()
        if only is not None:
            break


if __name__ == "__main__":
    child_main(json.loads(sys.argv[1]))
