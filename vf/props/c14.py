"""C14 — cached namespace bytecode is transparent and never used when invalid.

Fault injection with an observer. Child interpreters (fresh process each, chosen PYTHONHASHSEED) import a namespace with the
importer's loader paths wrapped, and print which path ran, how many cached code objects were executed, a canonical snapshot of
the namespace (Vars, metadata, printed values, results of probe forms compiled at run time in the child) and the state of the
.lpyc afterwards. Oracles:
  transparency   snapshot(load from a cache written under hash seed w, reader seed r != w) == snapshot(load from source, seed r)
  never-invalid  for every truncated / header-perturbed / stale cache: zero cached code objects executed, import succeeds, snapshot
                 equals the from-source snapshot, and a valid cache (header + unmarshal + loadable by a fresh child) is left behind
  decoding layer _get_basilisp_bytecode(name, mtime, size, data[:k]) raises one of the classes exec_module catches, for every k
"""
from __future__ import annotations

import hashlib
import json
import marshal
import os
import random
import shutil
import subprocess
import sys
import time

GEN_NS = {
    "vfgen.alpha": '''(ns vfgen.alpha
  (:require [basilisp.string :as str] [vfgen.beta :as beta])
  (:import decimal fractions))

(def ^{:doc "a keyword constant" :custom {:k [1 2]}} kw-const :zzz)
(def data {:zzz 1 :ns/q [1 2.5 "s" \\c #{:a :b}] 'sym '(quoted list) :nested {:deep {:er :zzz}}})
(def ^:private hidden 42)
(def ^:dynamic *dyn* :root)
(def pattern #"a+b")
(def an-id #uuid "12345678-1234-5678-1234-567812345678")
(def when-it-was #inst "2020-01-02T03:04:05Z")
(def money 1.50M)
(def third 1/3)
(defn k [] :zzz)
(defn ks [] [:zzz :other/kw 'a-symbol])
(defn lookup [x] (get {:zzz :found-zzz :yyy :found-yyy} x :missing))
(defn member? [x] (contains? #{:zzz :www} x))
(defn pick [x] (case x :zzz 1 :yyy 2 3))
(defrecord Point [x y])
(def origin (->Point 0 0))
(defmulti area :shape)
(defmethod area :square [{:keys [side]}] (* side side))
(defmethod area :default [_] :unknown)
(defn shout [s] (str/upper-case s))
(defn uses-beta [] (beta/answer))
(defmacro twice [x] `(do ~x ~x))
(def counter (atom 0))
(defn bump [] (twice (swap! counter inc)))
''',
    "vfgen.beta": '''(ns vfgen.beta)

(def table {:k :v})
(defn answer [] [(:k table) 42])
''',
    "vfgen.gamma": '''(ns vfgen.gamma (:require [basilisp.set :as set]))

(def s1 #{:a :b :c})
(defn u [] (set/union s1 #{:d}))
(defn f [& {:keys [a b] :or {a :da b :db}}] [a b])
(def lazy (map inc [1 2 3]))
(defprotocol Shape (sides [this]))
(deftype Tri [] Shape (sides [this] 3))
(defn tri-sides [] (sides (Tri)))
(def big 123456789012345678901234567890)
(def txt "é\\n\\"q\\" 中")
''',
}

PROBES = {
    "vfgen.alpha": ["(identical? (vfgen.alpha/k) :zzz)", "(= (vfgen.alpha/k) :zzz)", "(identical? (first (vfgen.alpha/ks)) :zzz)", "(identical? vfgen.alpha/kw-const :zzz)", "(get {:zzz :hit} (vfgen.alpha/k))",
                    "(contains? #{:zzz} (vfgen.alpha/k))", "(vfgen.alpha/lookup :zzz)", "(vfgen.alpha/lookup (keyword \"zzz\"))", "(vfgen.alpha/member? :zzz)", "(vfgen.alpha/pick :zzz)", "(vfgen.alpha/pick (keyword \"yyy\"))",
                    "(case (vfgen.alpha/k) :zzz :matched :no)", "(get vfgen.alpha/data :zzz)", "(get-in vfgen.alpha/data [:nested :deep :er])", "(identical? (get-in vfgen.alpha/data [:nested :deep :er]) :zzz)",
                    "(vfgen.alpha/area {:shape :square :side 3})", "(vfgen.alpha/area {:shape :circle})", "(vfgen.alpha/shout \"abc\")", "(vfgen.alpha/uses-beta)", "(:x vfgen.alpha/origin)", "(= vfgen.alpha/origin (vfgen.alpha/->Point 0 0))",
                    "(vfgen.alpha/bump)", "(re-matches vfgen.alpha/pattern \"aab\")", "(str vfgen.alpha/an-id)", "(inst-ms vfgen.alpha/when-it-was)", "(+ vfgen.alpha/money 1)", "(* 3 vfgen.alpha/third)",
                    "(binding [vfgen.alpha/*dyn* :bound] vfgen.alpha/*dyn*)", "(identical? (second (vfgen.alpha/ks)) :other/kw)", "(identical? (nth (vfgen.alpha/ks) 2) 'a-symbol)", "(= (nth (vfgen.alpha/ks) 2) 'a-symbol)"],
    "vfgen.beta": ["(vfgen.beta/answer)", "(identical? (first (vfgen.beta/answer)) :v)"],
    "vfgen.gamma": ["(vfgen.gamma/u)", "(vfgen.gamma/f :a 1)", "(vfgen.gamma/f)", "(identical? (first (vfgen.gamma/f)) :da)", "(vec vfgen.gamma/lazy)", "(vfgen.gamma/tri-sides)", "vfgen.gamma/big", "vfgen.gamma/txt",
                    "(contains? vfgen.gamma/s1 :a)", "(identical? (first (filter #{:a} vfgen.gamma/s1)) :a)"],
}


def plan(tier, seed):
    q = tier == "quick"
    shards = []
    # the small namespace vfgen.beta carries the bulk of the fault enumeration (its source fallback compiles in a fraction of a
    # second); the rich namespaces carry the transparency check plus a slice of the faults (their fallback compile takes seconds)
    for ns, parts, take in (("vfgen.beta", 4, 4), ("vfgen.alpha", 12 if q else 8, 3 if q else 8), ("vfgen.gamma", 12 if q else 8, 3 if q else 8)):
        for p in range(take):
            # (quick: each rich namespace is read back under one other hash seed per shard, alternating 2 / 3)
            shards.append({"kind": "faults", "ns": ns, "part": p, "parts": parts, "trunc_samples": (10 if ns == "vfgen.beta" else 4) if q else (60 if ns == "vfgen.beta" else 40),
                           "readers": ([2, 3] if ns == "vfgen.beta" else [2 + p % 2]) if q else ([2 + p % 3, 5 + p % 3, 3 + p % 2] if ns == "vfgen.beta" else [2 + p % 3, 5 + p % 3])})
    bundled = ["basilisp.string", "basilisp.set", "basilisp.walk"] if q else ["basilisp.string", "basilisp.set", "basilisp.walk", "basilisp.edn", "basilisp.json", "basilisp.data", "basilisp.pprint"]
    for i, nsname in enumerate(bundled):
        # one shard per bundled namespace; quick runs a third of the fault list each (rotating), thorough all of it
        shards.append({"kind": "bundled", "namespaces": [nsname], "trunc_samples": 3 if q else 12, "readers": [2] if q else [2 + i % 2, 4 + i % 2], "parts": 3 if q else 2, "part": i % 3 if q else i % 2})
    for i in range(2 if q else 6):
        shards.append({"kind": "decode", "part": i, "parts": 2 if q else 6, "max_offsets": 4000 if q else 400000})
    return {
        "level": "fault_enumeration",
        "rule": "cache files of generated namespaces (keywords, symbols, records, multimethods, protocols, regex/uuid/inst/decimal/fraction constants, macros, nested requires) and bundled library "
        "namespaces: empty file, truncation at sampled offsets weighted to structure boundaries through the full import path in child interpreters, every header field perturbation (magic, mtime +-1, "
        "size +-1, byte flips), stale source (touch, append, same-size edit); every truncation length at the decoding layer (all small offsets, strided beyond); writer hash seed 1, reader seeds 2-3 "
        "(thorough 2-7). distinct = distinct (namespace, fault, reader seed); non-trivial = every fault case (each runs a child interpreter with wrapped loader paths).",
        "shards": shards,
        "min_evaluations": 60,
        "watchdog_s": 1500 if q else 3400,
        "assumptions": ["a same-second same-size source edit is outside the property", "function reprs, gensym counters and memory addresses are normalised out of snapshots", "iteration order of hash collections, and the insertion order of Python dicts / sets built from them, is normalised out of snapshots", "corruption other than truncation / header perturbation is out of scope"],
    }


# =====================================================================================================================
# child interpreter
# =====================================================================================================================
def child_main(cfg):
    import importlib
    import re

    sys.path.insert(0, cfg["path"])
    # a basilispbootstrap .pth file in site-packages (the repository's own CLI tests install one for a moment) initialises the runtime
    # at interpreter start-up, before the loader paths are wrapped: such a child can observe nothing
    preinitialized = "basilisp.core" in sys.modules
    if preinitialized:
        sys.stdout.write("\n@@C14@@" + json.dumps({"ok": False, "exc": "PreInitialized", "msg": "runtime initialised at interpreter start-up by the environment"}) + "\n")
        sys.stdout.flush()
        os._exit(0)
    from basilisp import main as bmain
    from basilisp import importer
    from basilisp.lang import compiler, reader, runtime
    from basilisp.lang import keyword as kw
    from basilisp.lang import symbol as sym

    events = {"path": [], "cached_code_objects_executed": 0, "in_cached": 0}
    imp = importer.BasilispImporter
    o_cached, o_plain, o_cb = imp._exec_cached_module, imp._exec_module, compiler.compile_bytecode
    watch = set(cfg["watch"])

    def w_cached(self, fullname, *a, **k):
        if fullname in watch:
            events["path"].append(fullname + ":cached")
        events["in_cached"] += 1
        try:
            return o_cached(self, fullname, *a, **k)
        finally:
            events["in_cached"] -= 1

    def w_plain(self, fullname, *a, **k):
        if fullname in watch:
            events["path"].append(fullname + ":source")
        return o_plain(self, fullname, *a, **k)

    def w_cb(code, gctx, optimizer, module):
        if getattr(module, "__name__", "") in watch:
            # executing cached code objects one by one: count the ones that actually ran
            compiler._bootstrap_module(gctx, optimizer, module)
            for bc in code:
                if getattr(module, "__name__", "") == cfg["ns"]:
                    events["cached_code_objects_executed"] += 1  # only the namespace whose cache was tampered with
                exec(bc, module.__dict__)  # noqa: S102
            return None
        return o_cb(code, gctx, optimizer, module)

    imp._exec_cached_module, imp._exec_module = w_cached, w_plain
    compiler.compile_bytecode = w_cb
    importer.compiler.compile_bytecode = w_cb
    # the wrappers are in place before the runtime is initialised: bundled namespaces that basilisp.core itself requires are observed too
    res = {"ok": True}
    try:
        bmain.init()
    except BaseException as e:  # noqa
        res = {"ok": False, "exc": "InitFailed-" + type(e).__name__, "msg": str(e)[:300]}
    try:
        importlib.import_module(cfg["ns"])
    except BaseException as e:  # noqa
        res = {"ok": False, "exc": type(e).__name__, "msg": str(e)[:300]}
    if res["ok"]:
        core = runtime.Namespace.get(sym.symbol("basilisp.core"))
        pr_str = core.find(sym.symbol("pr-str")).value
        ns = runtime.Namespace.get(sym.symbol(cfg["ns"]))
        snap = {}
        drop = {"line", "col", "end-line", "end-col", "file"}

        from basilisp.lang import interfaces as _I

        def canon_pr(v, depth=0):
            """printed form that does not depend on the iteration order of hash collections (keys such as classes hash by address)"""
            if depth > 8:
                return pr_str(v)
            if isinstance(v, _I.IPersistentMap):
                return "{" + ", ".join(sorted(canon_pr(a, depth + 1) + " " + canon_pr(c, depth + 1) for a, c in v.items())) + "}"
            if isinstance(v, _I.IPersistentSet):
                return "#{" + " ".join(sorted(canon_pr(x, depth + 1) for x in v)) + "}"
            if isinstance(v, _I.IPersistentVector):
                return "[" + " ".join(canon_pr(x, depth + 1) for x in v) + "]"
            # Python collections built from a map / set literal inherit the literal's hash order as their insertion order
            if isinstance(v, dict):
                return "#py {" + ", ".join(sorted(canon_pr(a, depth + 1) + " " + canon_pr(c, depth + 1) for a, c in v.items())) + "}"
            if isinstance(v, (set, frozenset)):
                return "#py #{" + " ".join(sorted(canon_pr(x, depth + 1) for x in v)) + "}"
            if isinstance(v, (list, tuple)):
                return "#py " + ("[" if isinstance(v, list) else "(") + " ".join(canon_pr(x, depth + 1) for x in v) + ("]" if isinstance(v, list) else ")")
            if isinstance(v, (_I.IPersistentList, _I.ISeq)) and not isinstance(v, str):
                return "(" + " ".join(canon_pr(x, depth + 1) for x in itertools_islice(v)) + ")"
            if callable(v) and not isinstance(v, type) and not hasattr(v, "val_at"):
                return "<fn>"
            return pr_str(v)

        def itertools_islice(s):
            import itertools

            return itertools.islice(iter(s), 200)

        def norm(s):
            s = re.sub(r"0x[0-9a-f]{6,}", "0xADDR", s)
            s = re.sub(r"_\d+\b", "_N", s)
            return s

        for s_, v in sorted(ns.interns.items(), key=lambda kv: kv[0].name):
            meta = v.meta
            m = {}
            if meta is not None:
                for k_, mv in meta.items():
                    kn = getattr(k_, "name", str(k_))
                    if kn in drop or kn in ("ns", "arglists") and False:
                        continue
                    try:
                        m[str(k_)] = norm(canon_pr(mv)) if not callable(mv) else "<fn>"
                    except Exception as e:
                        m[str(k_)] = "!" + type(e).__name__
            try:
                val = v.value
                pv = "<fn>" if callable(val) and not hasattr(val, "val_at") and not isinstance(val, type) else norm(canon_pr(val))
                if isinstance(val, type):
                    pv = "<class %s>" % val.__name__
            except Exception as e:
                pv = "!" + type(e).__name__
            snap[s_.name] = {"meta": m, "value": pv, "dynamic": bool(v.dynamic), "private": bool(v.is_private)}
        res["vars"] = snap
        # probe forms are compiled here, at run time, in a scratch namespace of THIS process
        probes = {}
        scratch = runtime.Namespace.get_or_create(sym.symbol("vf.c14.scratch"))
        scratch.refer_all(core)
        with runtime.ns_bindings("vf.c14.scratch"):
            ctx = compiler.CompilerContext("<c14-probe>")
            for text in cfg["probes"]:
                try:
                    last = None
                    for f in reader.read_str(text, resolver=runtime.resolve_alias):
                        last = compiler.compile_and_exec_form(f, ctx, scratch)
                    probes[text] = norm(canon_pr(last))
                except Exception as e:
                    probes[text] = "!" + type(e).__name__ + ": " + str(e)[:80]
        res["probes"] = probes
    res["events"] = {"path": events["path"], "cached_code_objects_executed": events["cached_code_objects_executed"]}
    # state of the cache file afterwards
    try:
        src = cfg["source"]
        cf = importer._cache_from_source(src)
        st = os.stat(src)
        data = open(cf, "rb").read()
        hdr_ok = data[:4] == importer.MAGIC_NUMBER and int.from_bytes(data[4:8], "little") == (int(st.st_mtime) & 0xFFFFFFFF) and int.from_bytes(data[8:12], "little") == (st.st_size & 0xFFFFFFFF)
        try:
            codes = marshal.loads(data[12:])
            payload_ok = isinstance(codes, list) and len(codes) > 0
        except Exception:
            payload_ok = False
        res["cache_after"] = {"exists": True, "len": len(data), "header_ok": bool(hdr_ok), "payload_ok": bool(payload_ok), "path": cf}
    except FileNotFoundError:
        res["cache_after"] = {"exists": False}
    except Exception as e:
        res["cache_after"] = {"exists": None, "err": repr(e)[:100]}
    sys.stdout.write("\n@@C14@@" + json.dumps(res) + "\n")
    sys.stdout.flush()
    os._exit(0)


# =====================================================================================================================
# worker
# =====================================================================================================================
def _pdeath():
    from vf import build

    build.die_with_parent()


def run_child(cfg, hashseed, cache_prefix, nocache=False, timeout=240):
    for attempt in range(6):
        res = _run_child_once(cfg, hashseed, cache_prefix, nocache, timeout)
        if res.get("exc") != "PreInitialized":
            return res
        time.sleep(1.5)  # the interfering .pth file is transient
    return res


def _run_child_once(cfg, hashseed, cache_prefix, nocache=False, timeout=240):
    env = dict(os.environ)
    env["PYTHONHASHSEED"] = str(hashseed)
    env["PYTHONPYCACHEPREFIX"] = cache_prefix
    env.pop("PYTHONDONTWRITEBYTECODE", None)
    if nocache:
        env["BASILISP_DO_NOT_CACHE_NAMESPACES"] = "true"
    else:
        env.pop("BASILISP_DO_NOT_CACHE_NAMESPACES", None)
    p = subprocess.run([sys.executable, "-m", "vf.props.c14", json.dumps(cfg)], env=env, capture_output=True, timeout=timeout, preexec_fn=_pdeath, cwd=os.path.dirname(os.path.dirname(os.path.dirname(os.path.abspath(__file__)))))
    out = p.stdout.decode("utf-8", "replace")
    i = out.rfind("@@C14@@")
    if i < 0:
        return {"ok": False, "exc": "ChildCrashed", "msg": (out[-300:] + p.stderr.decode("utf-8", "replace")[-600:])}
    return json.loads(out[i + 7 :])


def worker(spec, out):
    rnd = random.Random(spec["seed"])
    scratch_root = os.environ.get("VERIF_SCRATCH") or "/verif/.work/scratch"
    base = os.path.join(scratch_root, "c14-%d-%d" % (os.getpid(), rnd.getrandbits(24)))
    os.makedirs(base, exist_ok=True)
    try:
        _worker(spec, out, rnd, base)
    finally:
        shutil.rmtree(base, ignore_errors=True)


def _worker(spec, out, rnd, base):
    srcdir = os.path.join(base, "src")
    os.makedirs(os.path.join(srcdir, "vfgen"), exist_ok=True)
    for ns, text in GEN_NS.items():
        with open(os.path.join(srcdir, *ns.split(".")) + ".lpy", "w", encoding="utf-8") as f:
            f.write(text)
    # a private copy of the warmed core cache per hash seed, so that children never rewrite the check's shared cache
    shared = os.environ["PYTHONPYCACHEPREFIX"]

    def prefix_for(hs):
        """a private cache prefix seeded with the check's warmed caches of basilisp.core and the standard libraries (so that children
        do not recompile core), minus any cache of the namespaces under test"""
        d = os.path.join(base, "cache-%s" % hs)
        if not os.path.isdir(d):
            shutil.copytree(shared, d, ignore=shutil.ignore_patterns(".warm"))
        return d

    def drop_caches(prefix, sources):
        for s_ in sources:
            try:
                os.unlink(cache_file(prefix, s_))
            except FileNotFoundError:
                pass

    def source_load(cfg, r, tag, sources):
        """reference: the namespace (and the generated namespaces it requires) loaded from source under hash seed r"""
        p = prefix_for(tag)
        drop_caches(p, sources)
        res = run_child(cfg, r, p)
        if res.get("ok") and not any(x.endswith(":source") for x in res.get("events", {}).get("path", [])):
            res = {"ok": False, "exc": "HarnessError", "msg": "reference run did not take the source path: %r" % (res.get("events"),)}
        return res

    def cfg_for(ns, source):
        watch = [ns] + (["vfgen.beta"] if ns == "vfgen.alpha" else [])
        return {"ns": ns, "path": srcdir, "source": source, "watch": watch, "probes": PROBES.get(ns, [])}

    def cache_file(prefix, source):
        # importlib.util.cache_from_source with PYTHONPYCACHEPREFIX: <prefix>/<abs source dir>/<name>.cpython-312.pyc -> .lpyc
        import importlib.util

        old = sys.pycache_prefix
        sys.pycache_prefix = prefix
        try:
            p = importlib.util.cache_from_source(source)
        finally:
            sys.pycache_prefix = old
        d, fn = os.path.split(p)
        return os.path.join(d, os.path.splitext(fn)[0] + ".lpyc")

    def compare(tag, got, want, case, ns):
        """snapshot equality; returns True if equal"""
        if got.get("exc") == "PreInitialized":
            out.incon("child interpreters were initialised at start-up by a .pth file of the environment; the loader could not be observed", case)
            return False
        if not got.get("ok"):
            out.violation(f"C14/{tag}/import-failed-{got.get('exc')}", {"ns": ns, "msg": got.get("msg", "")[:300], "case": case.get("fault")}, case)
            return False
        for section in ("vars", "probes"):
            a, c = got.get(section, {}), want.get(section, {})
            if a != c:
                keys = sorted(k for k in set(a) | set(c) if a.get(k) != c.get(k))
                k0 = keys[0]
                what = "probe" if section == "probes" else "var"
                kind = "keyword-identity" if (section == "probes" and "identical?" in k0) else what
                out.violation(f"C14/{tag}/snapshot-differs/{kind}", {"ns": ns, "differing": keys[:6], "from_cache_or_after_fault": a.get(k0), "from_source": c.get(k0), "case": case.get("fault")}, case)
                return False
        return True

    if "replay" in spec:
        c = spec["replay"]
        spec = dict(spec, kind=c["kind"], ns=c.get("ns", "vfgen.alpha"), part=0, parts=1, trunc_samples=0, readers=[c.get("reader", 2)], only_fault=c.get("fault"), namespaces=[c.get("ns")], max_offsets=2000)

    kind = spec["kind"]
    nfault_counter = [0]
    if kind in ("faults", "bundled"):
        if kind == "bundled":
            import importlib.util

            repo_src = os.path.join(os.environ.get("VERIF_REPO", "/repo"), "src")
            targets = [(ns, os.path.join(repo_src, *ns.split(".")) + ".lpy") for ns in spec["namespaces"]]
        else:
            targets = [(spec["ns"], os.path.join(srcdir, *spec["ns"].split(".")) + ".lpy")]
        for ns, source in targets:
            cfg = cfg_for(ns, source) if kind == "faults" else {"ns": ns, "path": srcdir, "source": source, "watch": [ns], "probes": []}
            if kind == "bundled":
                # bundled namespaces: work on a copy of the source tree? they are read-only for us: only hash-seed transparency and
                # truncation faults on a private cache prefix are exercised (the source file itself is never touched)
                pass
            all_sources = [source] + ([os.path.join(srcdir, "vfgen", "beta.lpy")] if ns == "vfgen.alpha" else [])
            wprefix = prefix_for("w1-" + ns)
            drop_caches(wprefix, all_sources)
            # writer: hash seed 1, no cache for the namespace yet -> compiles it from source and writes the cache
            wres = run_child(cfg, 1, wprefix)
            out.ev(("writer", ns))
            if wres.get("exc") == "PreInitialized":
                out.incon("child interpreters were initialised at start-up by a .pth file of the environment; the loader could not be observed", {"kind": kind, "ns": ns, "fault": "writer"})
                continue
            if not wres.get("ok"):
                out.violation(f"C14/writer/import-failed-{wres.get('exc')}", {"ns": ns, "msg": wres.get("msg", "")[:300]}, {"kind": kind, "ns": ns, "fault": "writer"})
                continue
            cf = cache_file(wprefix, source)
            if not os.path.isfile(cf):
                out.violation("C14/writer/no-cache-file-written", {"ns": ns, "expected_at": cf, "cache_after": wres.get("cache_after")}, {"kind": kind, "ns": ns, "fault": "writer"})
                continue
            good = open(cf, "rb").read()
            out.setx("cache_len_" + ns, len(good))
            for r in spec["readers"]:
                # reference: load from source under the reader's seed
                ref = source_load(cfg, r, "ref-%s-%s" % (ns, r), all_sources)
                if ref.get("exc") == "PreInitialized":
                    out.incon("child interpreters were initialised at start-up by a .pth file of the environment; the loader could not be observed", {"kind": kind, "ns": ns, "fault": "source", "reader": r})
                    continue
                if not ref.get("ok"):
                    out.violation(f"C14/source-load/import-failed-{ref.get('exc')}", {"ns": ns, "msg": ref.get("msg", "")[:300]}, {"kind": kind, "ns": ns, "fault": "source", "reader": r})
                    continue
                # transparency: load the writer's cache under another hash seed
                rprefix = prefix_for("r-%s-%s" % (ns, r))

                def install(data, prefix=rprefix):
                    # the reader gets its own prefix holding only this namespace's cache file (core etc. come from... the same prefix:
                    # seed a private copy of the shared warmed cache lazily would cost 9 MB per reader; instead basilisp.core is compiled
                    # once per reader prefix by the first child and reused afterwards)
                    p = cache_file(prefix, source)
                    os.makedirs(os.path.dirname(p), exist_ok=True)
                    with open(p, "wb") as f:
                        f.write(data)
                    return p

                faults = []
                if spec.get("only_fault"):
                    faults = [spec["only_fault"]]
                else:
                    faults.append(["transparent", None])
                    if kind == "faults" or True:
                        faults.append(["empty", 0])
                        n = len(good)
                        quick = spec.get("tier") == "quick"
                        head = [1, 3, 4, 5, 7, 8, 9, 11, 12, 13, 16, 20] if quick else list(range(1, 33))
                        tail = [n - k for k in ((1, 2, 5) if quick else range(1, 17))]
                        offs = sorted(set(head + tail + [rnd.randrange(17, n - 9) for _ in range(spec.get("trunc_samples", 6))] + [n // 2]))
                        faults += [["truncate", k] for k in offs if 0 < k < n]
                        faults += [["magic", i] for i in range(4)] + [["mtime", d] for d in (-1, 1, 1000)] + [["size", d] for d in (-1, 1)] + [["headerflip", i] for i in range(4, 12)]
                        if kind == "faults":
                            faults += [["stale-touch", None], ["stale-append", None], ["stale-same-size-edit", None]]
                faults = [f for i, f in enumerate(faults) if spec.get("only_fault") or i % spec.get("parts", 1) == spec.get("part", 0) or f[0] == "transparent"]
                for fault in faults:
                    fk, arg = fault
                    case = {"kind": kind, "ns": ns, "fault": fault, "reader": r}
                    data = good
                    src_backup = None
                    if fk == "empty":
                        data = b""
                    elif fk == "truncate":
                        data = good[:arg]
                    elif fk == "magic":
                        data = good[:arg] + bytes([good[arg] ^ 0x55]) + good[arg + 1 :]
                    elif fk == "mtime":
                        v = (int.from_bytes(good[4:8], "little") + arg) & 0xFFFFFFFF
                        data = good[:4] + v.to_bytes(4, "little") + good[8:]
                    elif fk == "size":
                        v = (int.from_bytes(good[8:12], "little") + arg) & 0xFFFFFFFF
                        data = good[:8] + v.to_bytes(4, "little") + good[12:]
                    elif fk == "headerflip":
                        data = good[:arg] + bytes([good[arg] ^ 0x01]) + good[arg + 1 :]
                    elif fk.startswith("stale"):
                        src_backup = open(source, "rb").read()
                        st = os.stat(source)
                        if fk == "stale-touch":
                            os.utime(source, (st.st_atime, st.st_mtime + 5))
                        elif fk == "stale-append":
                            with open(source, "ab") as f:
                                f.write(b" ")
                            os.utime(source, (st.st_atime, st.st_mtime))
                        else:
                            txt = src_backup.replace(b"42", b"43", 1)
                            with open(source, "wb") as f:
                                f.write(txt)
                            os.utime(source, (st.st_atime, st.st_mtime + 7))
                    install(data)
                    try:
                        got = run_child(cfg, r, rprefix)
                        want = ref
                        if fk.startswith("stale") and fk != "stale-touch":
                            want = source_load(cfg, r, "ref2-%s-%s" % (ns, r), all_sources)  # source changed: new reference
                        out.ev(("fault", ns, fk, arg, r))
                        out.count("fault_" + fk)
                        ev = got.get("events", {})
                        mine = [p for p in ev.get("path", []) if p.startswith(ns + ":")]
                        if fk == "transparent":
                            if got.get("ok") and mine != [ns + ":cached"]:
                                out.violation("C14/transparent/valid-cache-not-used", {"ns": ns, "path": ev.get("path"), "reader": r}, case)
                            compare("transparency", got, want, case, ns)
                            continue
                        if ev.get("cached_code_objects_executed", 0) > 0 and (ns + ":source") not in mine and got.get("ok"):
                            out.violation(f"C14/invalid-cache-executed/{fk}", {"ns": ns, "fault": fault, "code_objects_executed": ev.get("cached_code_objects_executed"), "path": ev.get("path")}, case)
                            continue
                        executed_before_fallback = ev.get("cached_code_objects_executed", 0)
                        if executed_before_fallback > 0:
                            out.violation(f"C14/invalid-cache-partially-executed/{fk}", {"ns": ns, "fault": fault, "code_objects_executed": executed_before_fallback, "path": ev.get("path")}, case)
                            continue
                        if not compare("fallback", got, want, case, ns):
                            continue
                        if (ns + ":source") not in mine:
                            out.violation(f"C14/fallback/source-path-not-taken/{fk}", {"ns": ns, "fault": fault, "path": ev.get("path"), "events": ev, "cache_after": got.get("cache_after"), "installed_bytes": len(data)}, case)
                            continue
                        ca = got.get("cache_after", {})
                        if not (ca.get("exists") and ca.get("header_ok") and ca.get("payload_ok")):
                            out.violation(f"C14/fallback/no-valid-cache-left-behind/{fk}", {"ns": ns, "fault": fault, "cache_after": ca}, case)
                            continue
                        # a fresh child must now load from the rewritten cache and agree (quick tier: for every third fault)
                        nfault = nfault_counter[0] = nfault_counter[0] + 1
                        if spec.get("tier") == "quick" and nfault % 3 != 0:
                            continue
                        again = run_child(cfg, r, rprefix)
                        mine2 = [p for p in again.get("events", {}).get("path", []) if p.startswith(ns + ":")]
                        if again.get("ok") and mine2 != [ns + ":cached"]:
                            out.violation(f"C14/fallback/rewritten-cache-not-loadable/{fk}", {"ns": ns, "fault": fault, "path": mine2}, case)
                            continue
                        compare("reload-after-fallback", again, want, case, ns)
                    finally:
                        if src_backup is not None:
                            with open(source, "wb") as f:
                                f.write(src_backup)
                            os.utime(source, (st.st_atime, st.st_mtime))  # the writer's cache stays valid for the next reader
                    out.maybe_flush()
            out.sample({"ns": ns, "cache_bytes": len(good), "writer_seed": 1, "readers": spec["readers"]})
    elif kind == "decode":
        from vf import boot

        b = boot.init()
        from basilisp import importer

        shared = os.environ["PYTHONPYCACHEPREFIX"]
        files = []
        for dp, dn, fn in os.walk(shared):
            for f in fn:
                if f.endswith(".lpyc"):
                    files.append(os.path.join(dp, f))
        files.sort(key=lambda p: os.path.getsize(p))
        files = [f for i, f in enumerate(files) if i % spec["parts"] == spec["part"]]
        ok_classes = (EOFError, ImportError, OSError)
        for path in files:
            data = open(path, "rb").read()
            n = len(data)
            mtime = int.from_bytes(data[4:8], "little")
            size = int.from_bytes(data[8:12], "little")
            name = os.path.basename(path)
            budget = max(200, spec["max_offsets"] // max(1, len(files)))
            if n > 400000:
                budget = min(budget, 300)
            stride = max(1, n // budget)
            offs = sorted(set(list(range(0, min(n, 64))) + list(range(64, n, stride)) + [n - k for k in range(1, 17) if n - k > 0]))
            out.setx("decode_offsets_" + name, len(offs))
            for k in offs:
                out.ev(("decode", name, k))
                try:
                    r = importer._get_basilisp_bytecode(name, mtime, size, data[:k])
                    out.violation("C14/decode/truncated-cache-decoded-as-complete", {"file": name, "len": n, "truncated_to": k, "code_objects": len(r) if isinstance(r, list) else repr(type(r))}, {"kind": "decode", "file": name, "k": k})
                    break
                except ok_classes:
                    pass
                except Exception as e:
                    out.violation(f"C14/decode/exception-escapes-fallback/{type(e).__name__}", {"file": name, "len": n, "truncated_to": k, "exc": repr(e)[:160]}, {"kind": "decode", "file": name, "k": k})
                    break
            # the complete file decodes
            try:
                importer._get_basilisp_bytecode(name, mtime, size, data)
                out.count("complete_files_decoded")
            except Exception as e:
                out.violation("C14/decode/complete-cache-rejected", {"file": name, "exc": repr(e)[:160]}, {"kind": "decode", "file": name, "k": n})
        out.sample({"decode_files": [os.path.basename(f) for f in files][:8]})


if __name__ == "__main__":
    child_main(json.loads(sys.argv[1]))
