"""C15 — the Python-AST optimization pass never changes what generated code does.

Invariant at a hook (translation validation): PythonASTOptimizer.visit is wrapped in the worker; every (before, after) pair of
ast.Module objects that passes through it while the real compiler compiles real code is captured and checked rewrite by rewrite
against an independent implementation of the allowed rewrites (vf/pyast_canon.py): dump(canon(before)) == dump(canon(after)).
Dynamic check: generated programs are compiled and run once with the real optimizer and once with the least-optimizing baseline
(canon without operator rewrites); value / exception class / effect trace must agree.
"""
from __future__ import annotations

import ast
import copy
import os
import random

BUNDLED = ["basilisp.string", "basilisp.set", "basilisp.walk", "basilisp.edn", "basilisp.json", "basilisp.data", "basilisp.io", "basilisp.pprint", "basilisp.test", "basilisp.template",
           "basilisp.stacktrace", "basilisp.shell", "basilisp.process", "basilisp.url", "basilisp.reflect", "basilisp.csv", "basilisp.repl", "basilisp.contrib.bencode", "basilisp.contrib.nrepl-server",
           "basilisp.test.fixtures"]


def plan(tier, seed):
    q = tier == "quick"
    shards = [{"kind": "bundled", "namespaces": BUNDLED if not q else BUNDLED[:12], "env": {"BASILISP_DO_NOT_CACHE_NAMESPACES": "true"}}]
    for i in range(5 if q else 14):
        shards.append({"kind": "programs", "n": 260 if q else 9000})
    shards.append({"kind": "operators"})
    return {
        "level": "translation_validation",
        "rule": "every module AST pair (before, after) passing through PythonASTOptimizer.visit while basilisp.core and the bundled library namespaces are compiled from source (caching off), while the generated "
        "program corpus of C01/C02 is compiled, and for a targeted operator corpus (each operator-module function the optimizer knows x operand shapes literal/name/effectful call); pairs are compared after "
        "canonicalisation by an independent implementation of the allowed rewrites; generated programs are additionally executed with the real optimizer and with a least-optimizing baseline. "
        "programs = module pairs checked; disagreements_checked = pairs the optimizer actually changed (each classified).",
        "shards": shards,
        "min_evaluations": 800,
        "watchdog_s": 1500 if q else 3400,
        "assumptions": ["location attributes are ignored", "Name loads are effect free (generated names are always bound)", "vf/pyast_canon.py is the definition of the allowed rewrites"],
    }


def worker(spec, out):
    import basilisp.lang.compiler.optimizer as optmod
    from basilisp.lang.compiler.constants import OPERATOR_ALIAS

    from vf import pyast_canon as pc

    pairs = []
    mode = {"baseline": False, "capture": True}
    orig_visit = optmod.PythonASTOptimizer.visit

    def wrapped_visit(self, node):
        if not isinstance(node, ast.Module):
            return orig_visit(self, node)
        if mode["baseline"]:
            # least-optimizing baseline that still compiles: allowed statement-level clean-ups only, no operator rewrites
            return pc.canon(node, OPERATOR_ALIAS, ops=False)
        before = copy.deepcopy(node) if mode["capture"] else None
        after = orig_visit(self, node)
        if mode["capture"]:
            pairs.append((before, after))
        return after

    optmod.PythonASTOptimizer.visit = wrapped_visit

    from vf import boot

    b = boot.init()
    rnd = random.Random(spec["seed"])

    def judge_pairs(origin):
        n_changed = 0
        for before, after in pairs:
            out.count("programs")
            db, da = pc.dump(before), pc.dump(after)
            changed = db != da
            out.ev(db if changed else None)
            case = {"kind": "pair", "origin": origin}
            if not changed:
                out.count("pairs_unchanged")
                continue
            n_changed += 1
            out.count("disagreements_checked")
            try:
                cb, ca = pc.canon(before, OPERATOR_ALIAS), pc.canon(after, OPERATOR_ALIAS)
            except Exception as e:
                out.violation(f"C15/harness/canon-raises-{type(e).__name__}", {"exc": repr(e)[:200], "origin": origin}, case)
                continue
            if pc.dump(cb) != pc.dump(ca):
                d = pc.first_difference(cb, ca) or ("?", "?", "?", "", "")
                try:
                    src = ast.unparse(before)[:600]
                except Exception:
                    src = "<unparse failed>"
                case["before_src"] = src
                out.violation(f"C15/rewrite/{d[1]}->{d[2]}", {"where": d[0], "unoptimized_fragment": d[3], "optimized_fragment": d[4], "origin": origin, "module_before": src}, case)
            else:
                out.count("pairs_changed_only_by_allowed_rewrites")
            # the optimized module must still be valid Python
            try:
                m = copy.deepcopy(after)
                ast.fix_missing_locations(m)
                compile(m, "<c15>", "exec")
            except Exception as e:
                out.violation(f"C15/optimized-module-does-not-compile/{type(e).__name__}", {"error": str(e)[:200], "origin": origin, "module_before": ast.unparse(before)[:400]}, case)
        del pairs[:]
        return n_changed

    if "replay" in spec:
        c = spec["replay"]
        if c["kind"] == "pair" and c.get("before_src"):
            # re-optimize the recorded unoptimized module text
            before = ast.parse(c["before_src"]) if "<unparse" not in c["before_src"] and len(c["before_src"]) < 600 else None
            if before is not None:
                after = orig_visit(optmod.PythonASTOptimizer(), copy.deepcopy(before))
                pairs.append((before, after))
                judge_pairs("replay")
        elif c["kind"] == "program":
            dynamic_program(b, out, mode, pairs, judge_pairs, c["gseed"], c.get("p_mark", 0.3))
        elif c["kind"] == "operator":
            operators(b, out, mode, pairs, judge_pairs, only=c.get("text"))
        return

    kind = spec["kind"]
    if kind == "bundled":
        import importlib

        # basilisp.core was compiled from source under the wrapper during boot (caching is off in this shard)
        n_core = len(pairs)
        out.setx("core_module_pairs", n_core)
        judge_pairs("basilisp.core")
        for nsname in spec["namespaces"]:
            try:
                importlib.import_module(nsname.replace("-", "_"))
            except Exception as e:
                out.count("namespace_import_failed")
                out.addset("namespace_import_failures", nsname + ": " + repr(e)[:120])
            judge_pairs(nsname)
        out.sample({"namespaces": ["basilisp.core"] + spec["namespaces"], "core_module_pairs": n_core})
    elif kind == "programs":
        for it in range(spec["n"]):
            dynamic_program(b, out, mode, pairs, judge_pairs, rnd.getrandbits(48), rnd.choice([0.15, 0.5]), sample=(it < 2))
            out.maybe_flush()
    elif kind == "operators":
        operators(b, out, mode, pairs, judge_pairs)


_RUNNER = {}


def dynamic_program(b, out, mode, pairs, judge_pairs, gseed, p_mark, sample=False):
    from vf import progrun, progs
    from vf.props import c01

    R = _RUNNER.get("r")
    if R is None:
        R = _RUNNER["r"] = progrun.Runner(b)
    prog = c01.gen_random(gseed, p_mark=p_mark)
    ctx = progs.CONTEXTS[gseed % 6]
    text = progs.render(progs.embed(prog, ctx))
    case = {"kind": "program", "gseed": gseed, "p_mark": p_mark, "text": text}
    mode["baseline"], mode["capture"] = False, True
    opt = R.run_text(text, gseed % 8, fresh=True)
    judge_pairs("generated-program")
    mode["baseline"], mode["capture"] = True, False
    try:
        base = R.run_text(text, gseed % 8, fresh=True)
    finally:
        mode["baseline"], mode["capture"] = False, True
    out.count("programs_executed_both_ways")
    if opt[0][0] == "timeout" or base[0][0] == "timeout":
        out.incon("program hit the wall-clock bound", case)
        return
    if opt != base:
        what = "result" if opt[0] != base[0] else "effect-order"
        out.violation(f"C15/dynamic/{what}-differs-between-optimized-and-baseline", {"text": text[:600], "optimized": repr(opt)[:300], "baseline": repr(base)[:300]}, case)
    if sample:
        out.sample({"program": text[:300], "optimized_outcome": repr(opt)[:120]})


def operators(b, out, mode, pairs, judge_pairs, only=None):
    """each operator-module function the optimizer knows, applied to operand shapes through (operator/f a b) forms; executed with the
    real optimizer and with the baseline, with effect tracing of the operands"""
    from vf import progrun

    R = progrun.Runner(b)
    shapes = {"int": "3", "float": "1.0", "one": "1", "str": '"ab"', "nil": "nil", "true": "true", "vec": "[1 2 3]", "name": "x7", "call": "(t 1 {v})", "call2": "(t 2 {v})"}
    binfns = ["add", "sub", "mul", "truediv", "floordiv", "mod", "pow", "lshift", "rshift", "and_", "or_", "xor", "lt", "le", "eq", "ne", "gt", "ge", "is_", "is_not", "contains", "getitem"]
    unfns = ["not_", "inv", "neg"]
    texts = []
    operand_vals = ["3", "1.0", "1", '"ab"', "nil", "true", "[1 2 3]", "7", "[1.0 2]", "1.5", "0"]
    for f in binfns:
        for a in operand_vals:
            for c in operand_vals:
                if (hash((f, a, c)) % 7) != 0 and not (f in ("is_", "is_not", "contains", "eq") and (a in ("1.0", "1", "[1 2 3]", "[1.0 2]") or c in ("1.0", "1"))):
                    continue
                texts.append(f"(operator/{f} {a} {c})")
                texts.append(f"(let [x7 {a}] (operator/{f} x7 {c}))")
                texts.append(f"(operator/{f} (t 1 {a}) (t 2 {c}))")
                texts.append(f"(let [x7 {a}] (operator/{f} x7 (t 2 {c})))")
    for f in unfns:
        for a in operand_vals:
            texts.append(f"(operator/{f} {a})")
            texts.append(f"(operator/{f} (t 1 {a}))")
    texts += ["(identical? 1.0 1)", "(identical? 1 1.0)", '(identical? "a" "a")', "(identical? nil nil)", "(identical? (t 1 1.0) (t 2 1))", "(if (operator/is_ 1.0 1) :same :different)",
              "(let [d (python/dict {1 2})] (operator/delitem d 1) (python/len d))", "(try 1 (finally 2))", "(do (if (t 1 true) nil nil) (t 2 :after))", "(do (if (t 1 nil) 5 6) (t 2 :after))",
              "(loop [i 0] (if (< i 2) (recur (inc i)) (do (t 1 i) :done)))", "((fn [] (throw (python/ValueError \"x\")) (t 1 :unreachable)))"]
    if only:
        texts = [only]
    for text in texts:
        case = {"kind": "operator", "text": text}
        mode["baseline"], mode["capture"] = False, True
        opt = R.run_text(text, 0, fresh=False)
        judge_pairs("operator-corpus")
        mode["baseline"], mode["capture"] = True, False
        try:
            base = R.run_text(text, 0, fresh=False)
        finally:
            mode["baseline"], mode["capture"] = False, True
        out.count("operator_forms_executed_both_ways")
        if opt != base:
            fn = text.split("operator/")[1].split(" ")[0].rstrip(")") if "operator/" in text else "special"
            what = "result" if opt[0] != base[0] else "effect-order"
            out.violation(f"C15/dynamic/operator-{fn}/{what}-differs", {"form": text, "optimized": repr(opt)[:200], "baseline": repr(base)[:200]}, case)
    out.sample({"operator_forms": texts[:6], "count": len(texts)})
