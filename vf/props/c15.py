"""C15 — the Python-AST optimization pass never changes what generated code does.

Invariant at a hook (translation validation): PythonASTOptimizer.visit is wrapped in the worker; every (before, after) pair of
ast.Module objects that passes through it while the real compiler compiles real code is captured and checked rewrite by rewrite
against an independent implementation of the allowed rewrites (vf/pyast_canon.py): dump(canon(before)) == dump(canon(after)).
Dynamic check: generated programs are compiled and run once with the real optimizer and once with the least-optimizing baseline
(canon without operator rewrites); value / exception class / effect trace must agree.
"""
from __future__ import annotations

import ast
import copy
import os
import random

BUNDLED = ["basilisp.string", "basilisp.set", "basilisp.walk", "basilisp.edn", "basilisp.json", "basilisp.data", "basilisp.io", "basilisp.pprint", "basilisp.test", "basilisp.template",
           "basilisp.stacktrace", "basilisp.shell", "basilisp.process", "basilisp.url", "basilisp.reflect", "basilisp.csv", "basilisp.repl", "basilisp.contrib.bencode", "basilisp.contrib.nrepl-server",
           "basilisp.test.fixtures"]


def plan(tier, seed):
    q = tier == "quick"
    # basilisp.core (and whatever boot imports) is compiled from source in a shard whose whole process has caching off; the library
    # namespaces are spread over shards that boot from the warmed cache and switch caching off before importing their share
    shards = [{"kind": "bundled", "namespaces": [], "env": {"BASILISP_DO_NOT_CACHE_NAMESPACES": "true"}, "core_part": k, "core_parts": 4} for k in range(4)]
    libs = BUNDLED if not q else BUNDLED[:12]
    groups = 4
    for g in range(groups):
        shards.append({"kind": "bundled", "namespaces": libs[g::groups], "late_nocache": True})
    for i in range(5 if q else 14):
        shards.append({"kind": "programs", "n": 260 if q else 9000})
    shards.append({"kind": "operators"})
    for i in range(1 if q else 2):
        shards.append({"kind": "defs", "n": 300 if q else 6000})
    if not q:
        # thorough only: the repository's own tests as a source of generated code (their verdicts are ignored)
        shards.insert(0, {"kind": "suite", "tests": ["tests/basilisp/compiler_test.py"], "jobs": 5, "timeout": 3200})
        shards.insert(1, {"kind": "suite", "tests": ["tests/basilisp/core", "tests/basilisp/contrib"] + ["tests/basilisp/test_%s.lpy" % n for n in ("string", "set", "walk", "edn", "json", "data", "io", "pprint")],
                          "jobs": 5, "timeout": 3200})
    return {
        "level": "translation_validation",
        "rule": "every module AST pair (before, after) passing through PythonASTOptimizer.visit while basilisp.core and the bundled library namespaces are compiled from source (caching off), while the generated "
        "program corpus of C01/C02 is compiled, and for a targeted operator corpus (each operator-module function the optimizer knows x operand shapes literal/name/host field access/effectful call), and for generated programs whose nested sync/async functions def the same Vars at several levels, in untaken branches and behind unreachable "
        "code (the global declarations the pass de-duplicates); pairs are compared after "
        "canonicalisation by an independent implementation of the allowed rewrites; generated programs are additionally executed with the real optimizer and with a least-optimizing baseline. "
        "programs = module pairs checked; disagreements_checked = pairs the optimizer actually changed (each classified).",
        "shards": shards,
        "min_evaluations": 800,
        "watchdog_s": 1500 if q else 3400,
        "assumptions": ["location attributes are ignored", "Name loads are effect free (generated names are always bound)", "vf/pyast_canon.py is the definition of the allowed rewrites"],
    }


def suite_workload(spec, out):
    """the repository's own tests as a compile workload: pytest runs over /repo/tests with the monitor plugin vf.pytest_c15 loaded in
    every pytest process; the tests' verdicts are ignored"""
    import glob
    import json
    import shutil
    import subprocess
    import sys
    import tempfile

    from vf import build

    repo = os.environ.get("VERIF_REPO", "/repo")
    outdir = tempfile.mkdtemp(prefix="c15suite-", dir=os.environ.get("VERIF_SCRATCH") or None)
    env = dict(os.environ, VERIF_C15_OUT=outdir)
    cmd = [sys.executable, "-m", "pytest", "-q", "-p", "no:cacheprovider", "-p", "vf.pytest_c15", "--timeout=900", "-n", str(spec.get("jobs", 4))] + spec["tests"]
    try:
        p = subprocess.run(cmd, cwd=repo, env=env, capture_output=True, text=True, timeout=spec.get("timeout", 3000), preexec_fn=build.die_with_parent)
        tail = (p.stdout or "")[-300:]
        stats = {"pairs": 0, "distinct": 0, "changed": 0, "ok": 0, "viol": 0}
        nproc = 0
        for fn in glob.glob(os.path.join(outdir, "*.jsonl")):
            for line in open(fn):
                rec = json.loads(line)
                if rec["t"] == "stats":
                    nproc += 1
                    for k in stats:
                        stats[k] += rec.get(k, 0)
                elif rec["t"] == "viol":
                    out.violation(rec["key"], {"where": rec["where"], "unoptimized_fragment": rec["unoptimized_fragment"], "optimized_fragment": rec["optimized_fragment"], "origin": "repo-suite:" + rec["test"],
                                               "module_before": rec["module_before"]}, {"kind": "pair", "origin": "repo-suite:" + rec["test"], "before_src": rec["module_before"]})
        out.count("programs", stats["distinct"])
        out.ev(None, n=stats["distinct"])
        out.count("suite_module_pairs_seen", stats["pairs"])
        out.count("disagreements_checked", stats["changed"])
        out.count("pairs_changed_only_by_allowed_rewrites", stats["ok"])
        out.count("pairs_unchanged", stats["distinct"] - stats["changed"])
        out.count("suite_pytest_processes_reporting", nproc)
        out.sample({"suite_tests": spec["tests"], "pytest_tail": tail, "stats": stats})
        if nproc == 0:
            out.incon("the repository suite workload reported nothing: " + tail[-200:], {"kind": "suite"})
    except subprocess.TimeoutExpired:
        out.incon("the repository suite workload hit its wall-clock bound", {"kind": "suite"})
    finally:
        shutil.rmtree(outdir, ignore_errors=True)


def worker(spec, out):
    if spec.get("kind") == "suite":
        return suite_workload(spec, out)
    import basilisp.lang.compiler.optimizer as optmod
    from basilisp.lang.compiler.constants import OPERATOR_ALIAS

    from vf import pyast_canon as pc

    pairs = []
    mode = {"baseline": False, "capture": True}
    orig_visit = optmod.PythonASTOptimizer.visit

    def wrapped_visit(self, node):
        if not isinstance(node, ast.Module):
            return orig_visit(self, node)
        if mode["baseline"]:
            # least-optimizing baseline that still compiles: allowed statement-level clean-ups only, no operator rewrites
            return pc.canon(node, OPERATOR_ALIAS, ops=False)
        # the compile of basilisp.core is shared out: each core shard compiles all of core but captures and judges only its residue class
        nth[0] += 1
        capture = mode["capture"] and (nth[0] % core_parts == core_part)
        before = copy.deepcopy(node) if capture else None
        after = orig_visit(self, node)
        if capture:
            pairs.append((before, after))
        return after

    nth = [0]
    core_parts, core_part = spec.get("core_parts", 1), spec.get("core_part", 0)

    optmod.PythonASTOptimizer.visit = wrapped_visit

    from vf import boot

    b = boot.init()
    rnd = random.Random(spec["seed"])

    def judge_pairs(origin):
        n_changed = 0
        for before, after in pairs:
            out.count("programs")
            db, da = pc.dump(before), pc.dump(after)
            changed = db != da
            out.ev(db if changed else None)
            case = {"kind": "pair", "origin": origin}
            if not changed:
                out.count("pairs_unchanged")
                continue
            n_changed += 1
            out.count("disagreements_checked")
            try:
                cb, ca = pc.canon(before, OPERATOR_ALIAS), pc.canon(after, OPERATOR_ALIAS)
            except Exception as e:
                out.violation(f"C15/harness/canon-raises-{type(e).__name__}", {"exc": repr(e)[:200], "origin": origin}, case)
                continue
            if pc.dump(cb) != pc.dump(ca):
                d = pc.first_difference(cb, ca) or ("?", "?", "?", "", "")
                try:
                    src = ast.unparse(before)[:600]
                except Exception:
                    src = "<unparse failed>"
                case["before_src"] = src
                out.violation(f"C15/rewrite/{d[1]}->{d[2]}", {"where": d[0], "unoptimized_fragment": d[3], "optimized_fragment": d[4], "origin": origin, "module_before": src}, case)
            else:
                out.count("pairs_changed_only_by_allowed_rewrites")
            # the optimized module must still be valid Python
            try:
                m = copy.deepcopy(after)
                ast.fix_missing_locations(m)
                compile(m, "<c15>", "exec")
            except Exception as e:
                out.violation(f"C15/optimized-module-does-not-compile/{type(e).__name__}", {"error": str(e)[:200], "origin": origin, "module_before": ast.unparse(before)[:400]}, case)
        del pairs[:]
        return n_changed

    if "replay" in spec:
        c = spec["replay"]
        if c["kind"] == "pair" and c.get("before_src"):
            # re-optimize the recorded unoptimized module text
            before = ast.parse(c["before_src"]) if "<unparse" not in c["before_src"] and len(c["before_src"]) < 600 else None
            if before is not None:
                after = orig_visit(optmod.PythonASTOptimizer(), copy.deepcopy(before))
                pairs.append((before, after))
                judge_pairs("replay")
        elif c["kind"] == "program":
            dynamic_program(b, out, mode, pairs, judge_pairs, c["gseed"], c.get("p_mark", 0.3))
        elif c["kind"] == "defs":
            defs_program(b, out, mode, pairs, judge_pairs, c["gseed"])
        elif c["kind"] == "operator":
            operators(b, out, mode, pairs, judge_pairs, only=c.get("text"))
        return

    kind = spec["kind"]
    if kind == "bundled":
        import importlib

        # basilisp.core was compiled from source under the wrapper during boot (caching is off in this shard)
        n_core = len(pairs)
        if spec.get("late_nocache"):
            os.environ["BASILISP_DO_NOT_CACHE_NAMESPACES"] = "true"  # read by the importer at each import
        else:
            out.count("core_module_pairs_judged", n_core)
        judge_pairs("basilisp.core")
        for nsname in spec["namespaces"]:
            try:
                importlib.import_module(nsname.replace("-", "_"))
            except Exception as e:
                out.count("namespace_import_failed")
                out.addset("namespace_import_failures", nsname + ": " + repr(e)[:120])
            judge_pairs(nsname)
        out.sample({"namespaces": ["basilisp.core"] + spec["namespaces"], "core_module_pairs": n_core})
    elif kind == "programs":
        for it in range(spec["n"]):
            dynamic_program(b, out, mode, pairs, judge_pairs, rnd.getrandbits(48), rnd.choice([0.15, 0.5]), sample=(it < 2))
            out.maybe_flush()
    elif kind == "operators":
        operators(b, out, mode, pairs, judge_pairs)
    elif kind == "defs":
        for it in range(spec["n"]):
            defs_program(b, out, mode, pairs, judge_pairs, rnd.getrandbits(48), sample=(it < 2))
            out.maybe_flush()


_RUNNER = {}


def gen_defs_program(gseed):
    """a program whose nested (sync and async) functions def the same few Vars at several nesting levels, inside do/let/if/try/loop, in
    untaken branches and behind unreachable code; returns (text, expected snapshots). The Python `global` declarations the generator
    emits for these defs are what the optimizer de-duplicates."""
    r = random.Random(gseed)
    names = ["ga", "gb", "gc"]
    depth = r.randint(1, 3)
    env = {n: ("kw", "g0") for n in names}
    levels = []
    for k in range(1, depth + 1):
        is_async = r.random() < 0.3
        stmts, effects = [], []
        for i in range(r.randint(1, 4)):
            n = r.choice(names)
            v = f":L{k}-{i}"
            d = f"(def {n} {v})"
            t = r.random()
            if t < 0.3:
                stmts.append(d)
                effects.append((n, v))
            elif t < 0.4:
                stmts.append(f"(do {d} nil)")
                effects.append((n, v))
            elif t < 0.5:
                stmts.append(f"(let [q{i} 1] {d})")
                effects.append((n, v))
            elif t < 0.6:
                stmts.append(f"(if true {d} nil)")
                effects.append((n, v))
            elif t < 0.7:
                stmts.append(f"(try {d} (finally nil))")
                effects.append((n, v))
            elif t < 0.8:
                stmts.append(f"(when false {d})")
            elif t < 0.9:
                stmts.append(f'(if false (do (throw (python/ValueError "unreachable")) {d}) nil)')
            else:
                stmts.append(f"(loop [i{i} 0] (when (< i{i} 2) {d} (recur (inc i{i}))))")
                effects.append((n, v))
        levels.append((is_async, stmts, effects))

    def fn_text(k):
        is_async, stmts, _ = levels[k - 1]
        inner = fn_text(k + 1) if k < depth else ":leaf"
        return f"(fn {'^:async ' if is_async else ''}f{k} [] {' '.join(stmts)} {inner})"

    lines = ["(import asyncio)"] + [f"(def {n} :g0)" for n in names]
    lines.append("(def snap (fn [] [ga gb gc @#'ga @#'gb @#'gc]))")
    lines.append(f"(def h1 {fn_text(1)})")
    lines.append("(def r0 (snap))")
    cur = {n: ":g0" for n in names}
    expected = [[cur[n] for n in names] * 2]
    for k in range(1, depth + 1):
        is_async, _, effects = levels[k - 1]
        call = f"(asyncio/run (h{k}))" if is_async else f"(h{k})"
        lines.append(f"(def h{k + 1} {call})")
        lines.append(f"(def r{k} (snap))")
        for n, v in effects:
            cur[n] = v
        expected.append([cur[n] for n in names] * 2)
    lines.append("[" + " ".join(f"r{k}" for k in range(depth + 1)) + "]")
    return "\n".join(lines), expected, any(l[0] for l in levels)


def defs_program(b, out, mode, pairs, judge_pairs, gseed, sample=False):
    from vf import progrun

    R = _RUNNER.get("r")
    if R is None:
        R = _RUNNER["r"] = progrun.Runner(b)
    text, expected, has_async = gen_defs_program(gseed)
    case = {"kind": "defs", "gseed": gseed, "text": text}
    mode["baseline"], mode["capture"] = False, True
    opt = R.run_text(text, gseed % 8, fresh=True)
    judge_pairs("nested-def-program")
    mode["baseline"], mode["capture"] = True, False
    try:
        base = R.run_text(text, gseed % 8, fresh=True)
    finally:
        mode["baseline"], mode["capture"] = False, True
    out.count("def_programs_executed_both_ways")
    out.count("def_programs_with_async_level") if has_async else None
    want = ("val", R.norm(b.read_all("[" + " ".join("[" + " ".join(s) + "]" for s in expected) + "]")[0]))
    if opt[0] != base[0]:
        which = "async-fn" if has_async else ("after-unreachable-code" if "unreachable" in text else "nested-fn")
        out.violation(f"C15/dynamic/global-declaration/{which}/result-differs-between-optimized-and-baseline", {"text": text[:900], "optimized": repr(opt[0])[:400], "baseline": repr(base[0])[:400]}, case)
    elif base[0] != want:
        out.incon("nested-def program: optimized and baseline agree with each other but not with the reference expectation (not a statement about the optimizer)", case)
    if sample:
        out.sample({"def_program": text[:400], "optimized_outcome": repr(opt[0])[:160]})


def dynamic_program(b, out, mode, pairs, judge_pairs, gseed, p_mark, sample=False):
    from vf import progrun, progs
    from vf.props import c01

    R = _RUNNER.get("r")
    if R is None:
        R = _RUNNER["r"] = progrun.Runner(b)
    prog = c01.gen_random(gseed, p_mark=p_mark)
    ctx = progs.CONTEXTS[gseed % 6]
    text = progs.render(progs.embed(prog, ctx))
    case = {"kind": "program", "gseed": gseed, "p_mark": p_mark, "text": text}
    mode["baseline"], mode["capture"] = False, True
    opt = R.run_text(text, gseed % 8, fresh=True)
    judge_pairs("generated-program")
    mode["baseline"], mode["capture"] = True, False
    try:
        base = R.run_text(text, gseed % 8, fresh=True)
    finally:
        mode["baseline"], mode["capture"] = False, True
    out.count("programs_executed_both_ways")
    if opt[0][0] == "timeout" or base[0][0] == "timeout":
        out.incon("program hit the wall-clock bound", case)
        return
    if opt != base:
        what = "result" if opt[0] != base[0] else "effect-order"
        out.violation(f"C15/dynamic/{what}-differs-between-optimized-and-baseline", {"text": text[:600], "optimized": repr(opt)[:300], "baseline": repr(base)[:300]}, case)
    if sample:
        out.sample({"program": text[:300], "optimized_outcome": repr(opt)[:120]})


def operators(b, out, mode, pairs, judge_pairs, only=None):
    """each operator-module function the optimizer knows, applied to operand shapes through (operator/f a b) forms; executed with the
    real optimizer and with the baseline, with effect tracing of the operands"""
    from vf import progrun

    R = progrun.Runner(b)
    shapes = {"int": "3", "float": "1.0", "one": "1", "str": '"ab"', "nil": "nil", "true": "true", "vec": "[1 2 3]", "name": "x7", "call": "(t 1 {v})", "call2": "(t 2 {v})"}
    binfns = ["add", "sub", "mul", "truediv", "floordiv", "mod", "pow", "lshift", "rshift", "and_", "or_", "xor", "lt", "le", "eq", "ne", "gt", "ge", "is_", "is_not", "contains", "getitem"]
    unfns = ["not_", "inv", "neg"]
    texts = []
    operand_vals = ["3", "1.0", "1", '"ab"', "nil", "true", "[1 2 3]", "7", "[1.0 2]", "1.5", "0"]
    for f in binfns:
        for a in operand_vals:
            for c in operand_vals:
                if (hash((f, a, c)) % 7) != 0 and not (f in ("is_", "is_not", "contains", "eq") and (a in ("1.0", "1", "[1 2 3]", "[1.0 2]") or c in ("1.0", "1"))):
                    continue
                texts.append(f"(operator/{f} {a} {c})")
                texts.append(f"(let [x7 {a}] (operator/{f} x7 {c}))")
                texts.append(f"(operator/{f} (t 1 {a}) (t 2 {c}))")
                texts.append(f"(let [x7 {a}] (operator/{f} x7 (t 2 {c})))")
    # operand shape "host field access" (a dotted name in the generated Python: reading it can run code or fail, so it is an
    # effectful operand like a call), on either side of a traced call
    for f in binfns:
        for a in ("3", '"ab"', "[1 2 3]"):
            for c in ("1", '"a"'):
                texts.append(f"(let [x7 {a}] (operator/{f} (.-real x7) (t 2 {c})))")
                texts.append(f"(let [x7 {a}] (operator/{f} (t 1 {c}) (.-real x7)))")
    for f in unfns:
        for a in operand_vals:
            texts.append(f"(operator/{f} {a})")
            texts.append(f"(operator/{f} (t 1 {a}))")
    texts += ["(identical? 1.0 1)", "(identical? 1 1.0)", '(identical? "a" "a")', "(identical? nil nil)", "(identical? (t 1 1.0) (t 2 1))", "(if (operator/is_ 1.0 1) :same :different)",
              "(let [d (python/dict {1 2})] (operator/delitem d 1) (python/len d))", "(try 1 (finally 2))", "(do (if (t 1 true) nil nil) (t 2 :after))", "(do (if (t 1 nil) 5 6) (t 2 :after))",
              "(loop [i 0] (if (< i 2) (recur (inc i)) (do (t 1 i) :done)))", "((fn [] (throw (python/ValueError \"x\")) (t 1 :unreachable)))"]
    if only:
        texts = [only]
    for text in texts:
        case = {"kind": "operator", "text": text}
        mode["baseline"], mode["capture"] = False, True
        opt = R.run_text(text, 0, fresh=False)
        judge_pairs("operator-corpus")
        mode["baseline"], mode["capture"] = True, False
        try:
            base = R.run_text(text, 0, fresh=False)
        finally:
            mode["baseline"], mode["capture"] = False, True
        out.count("operator_forms_executed_both_ways")
        if opt != base:
            fn = text.split("operator/")[1].split(" ")[0].rstrip(")") if "operator/" in text else "special"
            what = "result" if opt[0] != base[0] else "effect-order"
            out.violation(f"C15/dynamic/operator-{fn}/{what}-differs", {"form": text, "optimized": repr(opt)[:200], "baseline": repr(base)[:200]}, case)
    out.sample({"operator_forms": texts[:6], "count": len(texts)})
