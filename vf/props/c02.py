"""C02 — sub-expressions are evaluated left to right, exactly once.

Monitor: the sequence of tracer calls (t k v) made while compiled programs run, compared with the effect trace of the
reference evaluator (vf/progs.py). Three workloads:
  table   every compound kind at every argument position of every container kind, plain-call siblings
  rand    random programs with a tracer on ~half of the sub-expressions
  inline  every core Var carrying a callable :inline, one traced argument per parameter, inlining on and off
"""
from __future__ import annotations

import itertools
import random

from vf import progs
from vf.props import c01

DENY_INLINE = {"remove-ns", "create-ns", "ns-unmap", "ns-unalias", "read-line", "load-string", "push-thread-bindings", "pop-thread-bindings", "flush", "all-ns", "promise", "get-thread-bindings"}


def plan(tier, seed):
    q = tier == "quick"
    shards = [{"kind": "table", "part": i, "parts": 4} for i in range(4)]
    shards.append({"kind": "inline"})
    for i in range(6 if q else 16):
        shards.append({"kind": "rand", "n": 300 if q else 2500})
    for i in range(2 if q else 4):
        shards.append({"kind": "exh", "max_nodes": 4 if q else 5, "part": i, "parts": 2 if q else 4})
    return {
        "level": "exploration",
        "rule": "(a) the table (container x argument position 0..3 x compound kind x option set): containers = call, fn-position, vector, list, set, map key/value, recur args, "
        "method call target/args (.m / . form), host field access on a call target (.-f / . x -f) also as the test of an if, constructor (new / Class.), let* inits, loop* inits, def init, if test, do body; compounds = if, let*, do, try/finally, try/catch, "
        "loop*, letfn*, immediate fn call, compound nested in a plain call; (b) random programs with tracers on about half of the sub-expressions, 2 contexts x 2 option sets each; "
        "(c) exhaustive small programs with every sub-expression traced; (d) every core Var with a callable :inline (enumerated at run time) called with traced arguments, inlining on/off. "
        "distinct = distinct (program text, option set); non-trivial = at least two tracer calls in the program.",
        "shards": shards,
        "min_evaluations": 2000,
        "watchdog_s": 1200 if q else 3400,
        "assumptions": ["vf/progs.py Ref evaluator is the semantics of the fragment", "for map and set literals only exactly-once is judged (the reader makes them unordered before the compiler sees them)"],
    }


T = lambda k, e=None: ("t", k, e if e is not None else ("const", k))


def compounds(base):
    """compound forms carrying their own tracers, numbered from `base`"""
    a, b, c = base, base + 1, base + 2
    return {
        "if": ("if", T(a, ("const", True)), T(b), T(c)),
        "if-false": ("if", T(a, ("const", None)), T(b), T(c)),
        "let": ("let", [("x", T(a))], [T(b, ("local", "x"))]),
        "do": ("do", [T(a), T(b)]),
        "try-finally": ("try", [T(a)], [], [T(b)]),
        "try-catch": ("try", [("do", [T(a), ("throw", "ValueError", "m")])], [("ValueError", "e", [T(b)])], [T(c)]),
        "loop": ("loop", [("i", ("const", 0))], [("if", ("prim", "<", [("local", "i"), ("const", 2)]), ("recur", [T(a, ("prim", "inc", [("local", "i")]))]), T(b, ("local", "i")))]),
        "letfn": ("letfn", [("f", ("fn", "f", [([], None, [T(a)])]))], [("call", ("local", "f"), [])]),
        "fncall": ("call", ("fn", None, [([], None, [T(a)])]), []),
        "nested": ("prim", "idf", [("if", T(a, ("const", True)), T(b), T(c))]),
        "plain": T(a),
    }


CONTAINERS = ["call", "fnpos", "vec", "list", "set", "mapkey", "mapval", "recur", "fnrecur", "fnrecur-do", "method", "dotform", "target", "field", "field2", "iftest-field", "iftest-field2", "iftest-method", "new", "ctor", "letinit", "loopinit", "def", "iftest", "dobody", "throwarg"]


def build_cell(container, pos, ckind):
    """program placing compound `ckind` at argument position `pos` of `container`, siblings are plain tracer calls"""
    comp = compounds(10)[ckind]
    args = [T(i + 1) for i in range(4)]
    args[pos] = comp
    if container == "call":
        return ("prim", "vector", args)
    if container == "fnpos":
        f = ("fn", None, [(["p", "q", "r"], None, [("vec", [("local", "p"), ("local", "q"), ("local", "r")])])])
        fa = [("do", [comp, f]) if pos == 0 else T(1, f)] + [a if i + 1 != pos else comp for i, a in enumerate([T(2), T(3), T(4)])]
        return ("call", fa[0], fa[1:])
    if container == "vec":
        return ("vec", args)
    if container == "list":
        return ("list", args)
    if container == "set":
        # distinct values so that the literal is valid: compound values differ from sibling constants
        return ("set", args)
    if container == "mapkey":
        return ("map", [(a, ("const", 0)) for a in args])
    if container == "mapval":
        return ("map", [(("const", i), a) for i, a in enumerate(args)])
    if container == "recur":
        names = ["a", "b", "c", "d"]
        return ("loop", [("i", ("const", 0))] + [(n, ("const", 0)) for n in names], [("if", ("prim", "<", [("local", "i"), ("const", 1)]), ("recur", [("prim", "inc", [("local", "i")])] + args), ("vec", [("local", n) for n in names]))])
    if container in ("fnrecur", "fnrecur-do"):
        names = ["a", "b", "c", "d"]
        rec = ("recur", [("prim", "inc", [("local", "i")])] + args)
        if container == "fnrecur-do":
            rec = ("do", [T(9), rec])
        f = ("fn", None, [(["i"] + names, None, [("if", ("prim", "<", [("local", "i"), ("const", 1)]), rec, ("vec", [("local", n) for n in names]))])])
        return ("call", f, [("const", 0)] * 5)
    if container == "method":
        return ("icall", "method", [("local", "o")] + args)
    if container == "dotform":
        return ("icall", "dotform", [("local", "o")] + args)
    if container == "target":
        tgt = ("do", [comp, ("local", "o")])
        return ("icall", "method", [tgt, T(1), T(2), T(3)])
    if container in ("field", "field2"):
        # host field access on a compound target, among plain siblings
        return ("prim", "vector", [T(1), ("icall", container, [("t", 11, ("do", [comp, ("local", "o")]))]), T(3)])
    if container in ("iftest-field", "iftest-field2", "iftest-method"):
        # the test of an if is itself a host field access / method call whose target is a compound form
        tgt = ("t", 11, ("do", [comp, ("local", "o")]))  # a call: evaluating the target twice shows in the trace
        test = ("icall", "method", [tgt, T(1)]) if container == "iftest-method" else ("icall", "field2" if container.endswith("2") else "field", [tgt])
        return ("if", test, T(7), T(8))
    if container == "new":
        return ("icall", "new", args)
    if container == "ctor":
        return ("icall", "ctor", args)
    if container == "letinit":
        names = ["p", "q", "r", "s"]
        return ("let", list(zip(names, args)), [("vec", [("local", n) for n in names])])
    if container == "loopinit":
        names = ["p", "q", "r", "s"]
        return ("loop", list(zip(names, args)), [("vec", [("local", n) for n in names])])
    if container == "def":
        return ("do", [("def", "g1", ("prim", "vector", args)), ("global", "g1")])
    if container == "iftest":
        return ("if", ("prim", "vector", args), T(7), T(8))
    if container == "dobody":
        return ("do", args)
    if container == "throwarg":
        return ("try", [("do", args + [("throw", "KeyError", "m")])], [("KeyError", "e", [T(9)])], None)
    raise ValueError(container)


def worker(spec, out):
    from vf import boot, progrun

    b = boot.init()
    R = progrun.Runner(b)
    rnd = random.Random(spec["seed"])

    if "replay" in spec:
        c = spec["replay"]
        if c.get("gen") == "inline":
            inline_one(b, R, out, c["fn"], c["nargs"], c["argset"])
            return
        if "prog_repr" in c:
            import ast as _ast

            c01.check_program(R, out, _ast.literal_eval(c["prog_repr"]), "top", c["optset"], c["macros"], {"gen": "minimal"}, what=c.get("what", "trace"), keyprefix="C02")
        if c.get("gen") == "table":
            prog = build_cell(c["container"], c["pos"], c["ckind"])
        elif c.get("gen") == "rand":
            prog = c01.gen_random(c["gseed"], p_mark=0.5)
        elif c.get("gen") == "exh":
            prog = c01.regen(c)
        else:
            return
        c01.check_program(R, out, prog, c["ctx"], c["optset"], c["macros"], {k: c[k] for k in ("gen", "gseed", "idx", "max_nodes", "container", "pos", "ckind", "what") if k in c}, what=c.get("what", "trace"), keyprefix="C02")
        return

    kind = spec["kind"]
    if kind == "table":
        cells = [(c, p, k) for c in CONTAINERS for p in range(4) for k in compounds(10) if not (c in ("target", "field", "field2", "iftest-field", "iftest-field2", "iftest-method") and p > 0)]
        out.setx("table_cells", len(cells))
        for ci in range(spec["part"], len(cells), spec["parts"]):
            container, pos, ckind = cells[ci]
            prog = build_cell(container, pos, ckind)
            what = "multiset" if container in ("set", "mapkey", "mapval") else "trace"
            for optset in ((ci % 8), (ci + 3) % 8, (ci + 5) % 8):
                c01.check_program(R, out, prog, progs.CONTEXTS[(ci + optset) % 6], optset, False, {"gen": "table", "container": container, "pos": pos, "ckind": ckind, "what": what}, what=what, keyprefix="C02")
            out.count("table_cells_run")
            if ci < 8:
                out.sample({"cell": [container, pos, ckind], "program": progs.render(prog), "expected_trace": progs.Ref().run(prog)[1]})
    elif kind == "rand":
        for it in range(spec["n"]):
            gseed = rnd.getrandbits(48)
            prog = c01.gen_random(gseed, p_mark=0.5)
            for j in range(2):
                c01.check_program(R, out, prog, progs.CONTEXTS[(it + 2 * j) % 6], (it + 3 * j) % 8, it % 5 == 0, {"gen": "rand", "gseed": gseed, "p_mark": 0.5}, what="trace", keyprefix="C02")
            if it < 2:
                out.sample({"program": progs.render(prog), "expected_trace": progs.Ref().run(prog)[1]})
            out.maybe_flush()
    elif kind == "exh":
        allp = progs.enumerate_small(spec["max_nodes"])
        for idx in range(spec["part"], len(allp), spec["parts"]):
            prog = ("let", [("x", ("const", 1)), ("y", ("const", None))], [progs.mark_all(allp[idx])])
            c01.check_program(R, out, prog, progs.CONTEXTS[idx % 6], (idx // 6) % 8, False, {"gen": "exh", "idx": idx, "max_nodes": spec["max_nodes"]}, what="trace", keyprefix="C02")
            out.maybe_flush()
    elif kind == "inline":
        K = b.kw.keyword
        names = []
        for s, v in b.core_ns.interns.items():
            m = v.meta
            if m is not None and callable(m.val_at(K("inline"))) and s.name not in DENY_INLINE:
                al = m.val_at(K("arglists"))
                try:
                    nargs = len(list(al)[0])
                except Exception:
                    continue
                if nargs >= 1:
                    names.append((s.name, nargs))
        out.setx("inline_vars_found", len(names))
        for fn, nargs in sorted(names):
            for argset in range(3):
                inline_one(b, R, out, fn, nargs, argset)
        out.sample({"inline_vars": [n for n, _ in sorted(names)][:40]})


ARGSETS = [["[1 2]", "[1 2]", "[1 2]", "[1 2]"], ["1", "1", "1", "1"], ["[1 2]", "1", ":a", "nil"]]


def inline_one(b, R, out, fn, nargs, argset):
    """(f (t 1 a1) (t 2 a2) ..): whatever f does with its arguments, each argument expression must be evaluated exactly once, in order,
    with inlining on and off"""
    args = ARGSETS[argset]
    text = "(" + fn + "".join(f" (t {i + 1} {args[i]})" for i in range(nargs)) + ")"
    want = list(range(1, nargs + 1))
    for optset, label in ((0, "inline-on"), (2, "inline-off")):
        obs, tr = R.run_text(text, optset)
        out.ev((text, optset) if nargs >= 2 else (text, optset, "1"))
        out.count("inline_calls")
        if obs[0] == "compile-error":
            out.count("inline_compile_errors")
            continue
        if obs[0] == "exc" and tr == want[: len(tr)]:
            # the call raised part-way (ill-typed arguments): an in-order prefix is all that can be demanded
            out.count("inline_calls_raised")
            continue
        if tr != want:
            if sorted(tr) == want:
                kind = "reordered"
            elif len(tr) > len(set(tr)):
                kind = "duplicated"
            elif len(tr) < nargs:
                kind = "dropped"
            else:
                kind = "other"
            out.violation(f"C02/inline/{fn}/{kind}", {"text": text, "mode": label, "expected_trace": want, "observed_trace": tr, "result": repr(obs)[:120]}, {"gen": "inline", "fn": fn, "nargs": nargs, "argset": argset})
