"""C16 — the reader is total, classifies incomplete input, and reports true locations.

Monitors
  totality        every input terminates (per-input alarm) with forms made of Lisp data only, or reader.SyntaxError with int line/col
  classification  texts whose status is known by construction: prefixes of generated valid programs cut where a form is still owed must
                  raise UnexpectedEOFError; complete texts with an injected malformation must raise a SyntaxError that is not an EOF error;
                  for exhaustive short strings an independent bracket/quote scanner decides the subset it is sure about
  spans           every node carrying location metadata re-reads from its span text to an equal form; literal collections and
                  symbols carry a span at all
"""
from __future__ import annotations

import datetime
import itertools
import random
import re
import signal
import uuid
from decimal import Decimal
from fractions import Fraction

ALPHA24 = ["(", ")", "[", "]", "{", "}", '"', "\\", "'", "@", "~", "^", "#", ";", ",", ":", "/", "a", "1", "-", ".", "%", " ", "\n"]
DELIMS8 = ["(", ")", "[", "]", "{", "}", '"', "#"]


def plan(tier, seed):
    q = tier == "quick"
    shards = []
    n24 = 8
    for p in range(n24):
        shards.append({"kind": "exh", "alpha": "A24", "maxlen": 4 if q else 5, "part": p, "parts": n24, "stride": 1 if q else 1})
    for p in range(3 if q else 4):
        shards.append({"kind": "exh", "alpha": "D8", "maxlen": 6 if q else 7, "part": p, "parts": 3 if q else 4})
    for i in range(4 if q else 16):
        shards.append({"kind": "programs", "n": 500 if q else 5000})
    shards.append({"kind": "sources", "files": 6 if q else 40, "edits": 300 if q else 4000})
    if not q:
        for p in range(8):
            shards.append({"kind": "exh", "alpha": "A24x", "maxlen": 5, "part": p + 8, "parts": 16})
    return {
        "level": "exploration",
        "exhaustive": True,
        "rule": "all strings to length 4 (thorough 5) over a 24-character reader alphabet and to length 6 (thorough 7) over its 8 delimiter characters (exhaustive); generated programs from the reader "
        "grammar with LF/CRLF/CR line endings and multi-byte characters: every token-boundary prefix, cuts inside strings, single-character edits, injected malformations, span re-reading; top-level "
        "forms of bundled .lpy sources with line-ending rewrites and random edits. distinct = distinct input texts; non-trivial = texts with at least one delimiter or dispatch character.",
        "shards": shards,
        "min_evaluations": 50000,
        "watchdog_s": 1200 if q else 3400,
        "assumptions": ["data-reader tags with user functions are not generated", "#? conditionals are read with default features", "cut points for the EOF classification are token boundaries, string interiors and positions right after a prefix"],
    }


# ---- independent scanner ---------------------------------------------------------------------------------------------
def scan(text):
    """returns one of 'complete', 'incomplete', 'malformed', 'unsure' using only bracket/quote structure"""
    stack = []
    i, n = 0, len(text)
    pending_prefix = False  # a quote/deref/unquote/meta/dispatch prefix still owes a form
    close = {"(": ")", "[": "]", "{": "}"}
    while i < n:
        c = text[i]
        if c == "\\":
            return "unsure"  # character literals: left to the reader
        if c == ";":
            j = text.find("\n", i)
            if j < 0:
                i = n
                break
            i = j + 1
            continue
        if c == '"':
            j = i + 1
            while True:
                if j >= n:
                    return "incomplete"
                if text[j] == "\\":
                    if j + 1 >= n:
                        return "incomplete"
                    j += 2
                    continue
                if text[j] == '"':
                    break
                j += 1
            i = j + 1
            pending_prefix = False
            continue
        if c in "([{":
            stack.append(close[c])
            pending_prefix = False
        elif c in ")]}":
            if not stack or stack[-1] != c:
                return "malformed"
            if pending_prefix:
                return "unsure"
            stack.pop()
        elif c == "^":
            return "unsure"  # metadata owes two forms: left to the reader
        elif c in "'@~`":
            if i > 0 and text[i - 1] not in " \n\r\t,([{'@~`":
                return "unsure"  # inside a token (a' :' ...) these characters are ordinary symbol characters
            pending_prefix = True
        elif c == "#":
            return "unsure"  # dispatch forms: left to the reader
        elif c in " \n\r\t,":
            pass
        else:
            pending_prefix = False
        i += 1
    if stack:
        return "incomplete"
    if pending_prefix:
        return "incomplete"
    return "complete"


# ---- grammar based program generator ---------------------------------------------------------------------------------
SYMS = ["a", "b", "foo", "x?", "*y*", "a-b", "+", "->", "ns.q/name", "é", "λx", "名", "a1", ".method", "Cls.", "&"]
KWS = [":a", ":b", ":ns/k", ":é", "::loc"]
NUMS = ["0", "1", "-1", "42", "1.5", "-0.5", "1e3", "2/3", "0x1F", "017", "1N", "1.5M", "2r101", "3J"]
STRS = ['""', '"s"', '"a b"', '"é"', '"\\n"', '"\\""', '"\\\\"', '"\\u00e9"', '"multi\nline"', '"🐍"', '"(unbalanced"', '"; not a comment"']
CHARS = ["\\a", "\\newline", "\\space", "\\(", "\\u03A9"]


class G:
    def __init__(self, rnd):
        self.r = rnd

    def atom(self):
        r = self.r
        t = r.random()
        if t < 0.4:
            return ("sym", r.choice(SYMS))
        if t < 0.55:
            return ("kw", r.choice(KWS))
        if t < 0.75:
            return ("num", r.choice(NUMS))
        if t < 0.9:
            return ("str", r.choice(STRS))
        if t < 0.95:
            return ("char", r.choice(CHARS))
        return ("lit", r.choice(["nil", "true", "false", "##Inf", "##NaN"]))

    def value_form(self, d):
        """a form that counts as exactly one value (never a #_ discard): map values, reader-conditional branches"""
        f = self.form(d)
        while f[0] == "discard":
            f = self.form(d)
        return f

    def form(self, d):
        r = self.r
        t = r.random()
        if d <= 0 or t < 0.35:
            return self.atom()
        n = r.randint(0, 3)
        if t < 0.55:
            return ("list", [self.form(d - 1) for _ in range(n)])
        if t < 0.68:
            return ("vec", [self.form(d - 1) for _ in range(n)])
        if t < 0.76 and r.random() < 0.3:
            # namespaced map literal: bare symbol and keyword keys take the map's namespace, _/k stays bare
            ks = r.sample(["b", "c", "_/d", ":k", ":_/m", "other/q", ":other/k", "1", '"s"'], min(n, 3))
            return ("nsmap", r.choice(["a", "ns.q", "é"]), [(("raw", k), self.value_form(d - 1)) for k in ks])
        if t < 0.76:
            ks = r.sample(KWS[:4] + ["1", "2", '"k"'], min(n, 3))
            return ("map", [(("raw", k), self.value_form(d - 1)) for k in ks])
        if t < 0.81:
            ks = r.sample(SYMS[:6] + ["1", "2"], min(n, 3))
            return ("set", [("raw", k) for k in ks])
        if t < 0.86:
            p = r.choice(["'", "@", "~", "~@", "`", "#'"])
            if p == "#'":
                return ("prefix", p, ("sym", r.choice(SYMS[:6])))
            inner = self.form(d - 1)
            # (a splice directly under a syntax quote is malformed: "Cannot splice outside collection")
            def is_splice(f):
                # a splice that would sit directly under the syntax quote, possibly through a reader conditional or metadata
                return (f[0] == "prefix" and f[1] == "~@") or (f[0] == "rcond" and any(is_splice(x) for x in f[1])) or (f[0] == "meta" and is_splice(f[2]))

            while inner[0] == "discard" or (p == "`" and is_splice(inner)):
                inner = self.form(d - 1)
            return ("prefix", p, inner)
        if t < 0.9:
            return ("meta", r.choice(["^:m", "^{:a 1}", "^Tag"]), r.choice([("sym", "a"), ("vec", [self.atom()]), ("list", [("sym", "f"), self.atom()])]))
        if t < 0.93:
            return ("fnlit", [("sym", "+"), ("sym", "%"), self.atom()])
        if t < 0.95:
            return ("discard", self.value_form(d - 1))
        if t < 0.97:
            return ("tagged", r.choice(['#uuid "12345678-1234-5678-1234-567812345678"', '#inst "2020-01-01T00:00:00Z"', '#"re+"', '#py [1 2]', '#py {:a 1}', '#queue (1 2)', '#b "ab"']))
        return ("rcond", [self.value_form(d - 1), self.value_form(d - 1)])

    def tokens(self, f, out):
        """flatten into (text, kind) tokens; kind in {open, close, atom, str, prefix, ws}"""
        k = f[0]
        if k in ("sym", "kw", "num", "char", "lit", "raw"):
            out.append((f[1], "atom"))
        elif k == "str":
            out.append((f[1], "str"))
        elif k in ("list", "vec"):
            o, c = ("(", ")") if k == "list" else ("[", "]")
            out.append((o, "open"))
            for i, x in enumerate(f[1]):
                if i:
                    out.append((" ", "ws"))
                self.tokens(x, out)
            out.append((c, "close"))
        elif k == "nsmap":
            out.append(("#:" + f[1] + "{", "open"))
            for i, (a, c) in enumerate(f[2]):
                if i:
                    out.append((" ", "ws"))
                self.tokens(a, out)
                out.append((" ", "ws"))
                self.tokens(c, out)
            out.append(("}", "close"))
        elif k == "map":
            out.append(("{", "open"))
            for i, (a, c) in enumerate(f[1]):
                if i:
                    out.append((", " if self.r.random() < 0.3 else " ", "ws"))
                self.tokens(a, out)
                out.append((" ", "ws"))
                self.tokens(c, out)
            out.append(("}", "close"))
        elif k == "set":
            out.append(("#{", "open"))
            for i, x in enumerate(f[1]):
                if i:
                    out.append((" ", "ws"))
                self.tokens(x, out)
            out.append(("}", "close"))
        elif k == "prefix":
            out.append((f[1], "prefix"))
            self.tokens(f[2], out)
        elif k == "meta":
            out.append((f[1], "atom"))
            out.append((" ", "metaws"))
            self.tokens(f[2], out)
        elif k == "fnlit":
            out.append(("#(", "open"))
            for i, x in enumerate(f[1]):
                if i:
                    out.append((" ", "ws"))
                self.tokens(x, out)
            out.append((")", "close"))
        elif k == "discard":
            out.append(("#_", "prefix"))
            self.tokens(f[1], out)
        elif k == "tagged":
            out.append((f[1], "atom"))
        elif k == "rcond":
            out.append(("#?(", "open"))
            out.append((":lpy", "atom"))
            out.append((" ", "ws"))
            self.tokens(f[1][0], out)
            out.append((" ", "ws"))
            out.append((":default", "atom"))
            out.append((" ", "ws"))
            self.tokens(f[1][1], out)
            out.append((")", "close"))

    def program(self):
        forms = [self.form(3) for _ in range(self.r.randint(1, 3))]
        toks = []
        for i, f in enumerate(forms):
            if i:
                toks.append((self.r.choice(["\n", "\n\n", " ", "\n; comment ( [ \"\n"]), "ws"))
            self.tokens(f, toks)
        return toks


def worker(spec, out):
    from vf import boot

    b = boot.init()
    rnd = random.Random(spec["seed"])
    reader = b.reader
    from basilisp.lang import interfaces as I
    from basilisp.lang.tagged import TaggedLiteral

    K = b.kw.keyword
    LINE, COL, ELINE, ECOL = (K(n, ns="basilisp.lang.reader") for n in ("line", "col", "end-line", "end-col"))
    PATTERN = type(re.compile(""))
    EQ = b.core("=")
    PR = b.core("pr-str")
    FIRST = b.core("first")
    READER_MADE = {("basilisp.core", "unquote"), ("basilisp.core", "unquote-splicing"), (None, "var"), (None, "quote"), ("basilisp.core", "deref")}
    DATA_TYPES = (type(None), bool, int, float, complex, Fraction, Decimal, str, bytes, b.sym.Symbol, b.kw.Keyword, PATTERN, uuid.UUID, datetime.datetime, TaggedLiteral, reader.ReaderConditional)

    class Timeout(BaseException):
        pass

    def _alarm(sig, frm):
        raise Timeout()

    signal.signal(signal.SIGALRM, _alarm)

    def non_data(v, depth=0):
        """first thing in a form that is not Lisp data, or None"""
        if isinstance(v, DATA_TYPES):
            return None
        if depth > 60:
            return None
        if isinstance(v, (I.IPersistentMap, dict)):
            for a, c in v.items():
                r = non_data(a, depth + 1) or non_data(c, depth + 1)
                if r:
                    return r
            return None
        if isinstance(v, (I.IPersistentVector, I.IPersistentList, I.ISeq, I.IPersistentSet, b.lqueue.PersistentQueue, list, tuple, set, frozenset)):
            for x in v:
                r = non_data(x, depth + 1)
                if r:
                    return r
            return None
        return type(v).__name__

    def innermost_reader_fn(e):
        tb = e.__traceback__
        name = "?"
        while tb is not None:
            if tb.tb_frame.f_code.co_filename.endswith("reader.py"):
                name = tb.tb_frame.f_code.co_name
            tb = tb.tb_next
        return name

    def read(text, limit=5.0):
        """returns ('forms', list) | ('eof', e) | ('syntax', e) | ('other', e) | ('timeout', None)"""
        signal.setitimer(signal.ITIMER_REAL, limit)
        try:
            try:
                forms = list(reader.read_str(text))
                return ("forms", forms)
            finally:
                signal.setitimer(signal.ITIMER_REAL, 0)
        except Timeout:
            return ("timeout", None)
        except reader.UnexpectedEOFError as e:
            return ("eof", e)
        except reader.SyntaxError as e:
            return ("syntax", e)
        except RecursionError as e:
            return ("other", e)
        except Exception as e:
            return ("other", e)

    def totality(text, res):
        """the outcome must be forms of Lisp data or a syntax error with int line/col"""
        kind, v = res
        case = {"kind": "text", "text": text}
        if kind == "timeout":
            again = read(text, 20.0)
            if again[0] == "timeout":
                out.violation("C16/totality/nontermination", {"text": text}, case)
            else:
                out.incon("reader hit the wall-clock bound once but finished on retry", case)
            return False
        if kind == "other":
            out.violation(f"C16/totality/non-syntax-exception/{type(v).__name__}/{innermost_reader_fn(v)}", {"text": text, "exc": repr(v)[:200]}, case)
            return False
        if kind in ("eof", "syntax"):
            if not isinstance(v.line, int) or not isinstance(v.col, int):
                out.violation(f"C16/totality/syntax-error-without-location/{innermost_reader_fn(v)}", {"text": text, "exc": str(v)[:200], "line": repr(v.line), "col": repr(v.col)}, case)
                return False
            return True
        for f in v:
            nd = non_data(f)
            if nd:
                out.violation(f"C16/totality/non-data-in-form/{nd}/{first_token_kind(text)}", {"text": text, "forms": repr(v)[:200]}, case)
                return False
        return True

    def first_token_kind(text):
        t = text.strip()
        for p in ("~@", "'", "@", "~", "`", "^", "#_", "#'", "#"):
            if t.endswith(p):
                return "after-" + p
        return "other"

    def check_text(text, expect=None, why=None):
        """expect: None | 'eof' | 'syntax-not-eof' | 'forms'"""
        res = read(text)
        nt = any(ch in text for ch in "()[]{}\"#'@~^`\\")
        out.ev(text if nt else None)
        out.count("outcome_" + res[0])
        ok = totality(text, res)
        if not ok:
            return res
        case = {"kind": "text", "text": text, "expect": expect, "why": why}
        if expect == "eof" and res[0] != "eof":
            out.violation(f"C16/classification/incomplete-not-eof/{why}/{res[0]}", {"text": text, "outcome": res[0], "detail": (str(res[1])[:160] if res[0] != "forms" else repr(res[1])[:160])}, case)
        elif expect == "syntax-not-eof" and res[0] != "syntax":
            out.violation(f"C16/classification/malformed-not-syntax-error/{why}/{res[0]}", {"text": text, "outcome": res[0], "detail": (str(res[1])[:160] if res[0] != "forms" else repr(res[1])[:160])}, case)
        elif expect == "forms" and res[0] != "forms":
            out.violation(f"C16/classification/valid-text-rejected/{why}", {"text": text, "outcome": res[0], "detail": str(res[1])[:200]}, case)
        return res

    def scanner_check(text):
        res = check_text(text)
        s = scan(text)
        out.count("scan_" + s)
        case = {"kind": "text", "text": text, "scan": s}
        if s == "complete" and res[0] == "eof":
            out.violation("C16/classification/complete-text-reported-as-eof", {"text": text, "exc": str(res[1])[:160]}, case)
        elif s == "incomplete" and res[0] == "forms":
            out.violation("C16/classification/incomplete-text-yields-forms", {"text": text, "forms": repr(res[1])[:160]}, case)
        elif s == "malformed" and res[0] == "eof":
            # a stray/mismatched closer before the end: the text can never be completed
            out.violation("C16/classification/malformed-text-reported-as-eof", {"text": text, "exc": str(res[1])[:160]}, case)
        return res

    # ---- spans ---------------------------------------------------------------------------------------------------------
    def line_starts(text):
        starts = [0]
        i = 0
        while i < len(text):
            c = text[i]
            if c == "\r":
                if i + 1 < len(text) and text[i + 1] == "\n":
                    i += 1
                starts.append(i + 1)
            elif c == "\n":
                starts.append(i + 1)
            i += 1
        return starts

    def span_text(text, starts, m):
        try:
            l0, c0, l1, c1 = m.val_at(LINE), m.val_at(COL), m.val_at(ELINE), m.val_at(ECOL)
            if None in (l0, c0, l1, c1):
                return None
            a = starts[l0 - 1] + c0
            z = starts[l1 - 1] + c1
            return text[a:z]
        except Exception:
            return None

    def strip_meta(v):
        if isinstance(v, b.sym.Symbol):
            return b.sym.symbol(v.name, ns=v.ns)
        if isinstance(v, I.IPersistentVector):
            return b.vec.vector([strip_meta(x) for x in v])
        if isinstance(v, I.IPersistentMap):
            return b.lmap.map({strip_meta(a): strip_meta(c) for a, c in v.items()})
        if isinstance(v, I.IPersistentSet):
            return b.lset.set([strip_meta(x) for x in v])
        if isinstance(v, (I.IPersistentList, I.ISeq)):
            return b.llist.list([strip_meta(x) for x in v])
        return v

    def same_form(a, c):
        if isinstance(a, PATTERN) and isinstance(c, PATTERN):
            return a.pattern == c.pattern
        if isinstance(a, float) and isinstance(c, float) and a != a and c != c:
            return True
        try:
            if type(a) is type(c) and PR(a) == PR(c):
                return True  # NaN-tolerant: identical printed forms
        except Exception:
            pass
        try:
            return bool(EQ(a, c)) and type(a) is type(c)
        except Exception:
            return False

    ARG = re.compile(r"^arg-(\d+|rest)$")

    def backtick_outside_strings(text):
        i, n = 0, len(text)
        while i < n:
            c = text[i]
            if c == '"':
                i += 1
                while i < n and text[i] != '"':
                    i += 2 if text[i] == "\\" else 1
            elif c == ";":
                while i < n and text[i] not in "\r\n":
                    i += 1
            elif c == "\\":
                i += 1  # character literal: skip the character itself
            elif c == "`":
                return True
            i += 1
        return False

    def check_spans(text, forms, origin):
        """every node with span metadata: re-reading its span text gives exactly one equal form"""
        starts = line_starts(text)
        seen = [0]

        def walk(v, in_fnlit, depth=0, synthesized=False, parent_text=""):
            if depth > 40:
                return
            m = getattr(v, "meta", None) if isinstance(v, (b.sym.Symbol, I.IPersistentVector, I.IPersistentMap, I.IPersistentSet, I.IPersistentList, I.ISeq)) else None
            if m is not None and m.val_at(LINE) is not None:
                st = span_text(text, starts, m)
                seen[0] += 1
                out.count("spans_checked")
                case = {"kind": "span", "text": text, "origin": origin}
                kind_ = "symbol" if isinstance(v, b.sym.Symbol) else ("set" if isinstance(v, I.IPersistentSet) else ("map" if isinstance(v, I.IPersistentMap) else ("vector" if isinstance(v, I.IPersistentVector) else "list")))
                if st is None:
                    out.violation(f"C16/span/out-of-range/{kind_}", {"text": text[:200], "form": repr(v)[:100], "meta": repr(m)[:200]}, case)
                else:
                    rr = read(st)
                    ok = False
                    if rr[0] == "forms" and len(rr[1]) == 1:
                        got = rr[1][0]
                        if in_fnlit or "%" in st:
                            ok = True if in_fnlit else same_form(strip_meta(got), strip_meta(v))
                        else:
                            ok = same_form(strip_meta(got), strip_meta(v))
                            if not ok and parent_text.startswith("#:") and isinstance(v, b.sym.Symbol) and isinstance(got, b.sym.Symbol) and got.name == v.name and got.ns in (None, "_"):
                                ok = True  # a key of a namespaced map literal: its text alone does not carry the namespace the literal supplies
                    if not ok and not in_fnlit:
                        # where does the recorded span start relative to the true text?
                        out.violation(f"C16/span/reread-differs/{kind_}", {"span_text": st[:120], "form": repr(v)[:120], "reread": (repr(rr[1])[:120] if rr[0] == "forms" else rr[0]), "origin": origin}, case)
            elif isinstance(v, (I.IPersistentList, I.ISeq)) and isinstance(FIRST(v), b.sym.Symbol) and (FIRST(v).meta is None or FIRST(v).meta.val_at(LINE) is None) and (FIRST(v).ns, FIRST(v).name) in READER_MADE:
                # ~x / ~@x / #'x / 'x / @x: the (unquote x) ... list is made by the reader and is not itself a collection of the text; x is
                for x in itertools.islice(iter(v), 1, None):
                    walk(x, in_fnlit, depth + 1, synthesized=synthesized, parent_text=parent_text)
                return
            elif isinstance(v, (b.sym.Symbol, I.IPersistentVector, I.IPersistentMap, I.IPersistentSet, I.IPersistentList, I.ISeq)) and not in_fnlit and not synthesized and not isinstance(v, b.lqueue.PersistentQueue):
                # a symbol or collection written in the text but carrying no span at all
                kind_ = "symbol" if isinstance(v, b.sym.Symbol) else ("set" if isinstance(v, I.IPersistentSet) else ("map" if isinstance(v, I.IPersistentMap) else ("vector" if isinstance(v, I.IPersistentVector) else "list")))
                out.count("nodes_without_span")
                out.violation(f"C16/span/missing/nested-{kind_}", {"text": text[:200], "form": repr(v)[:100], "parent": parent_text[:80]}, {"kind": "span", "text": text, "origin": origin})
            my_text = (span_text(text, starts, m) or "") if (m is not None and m.val_at(LINE) is not None) else ""
            if isinstance(v, (I.IPersistentVector, I.IPersistentList, I.IPersistentSet)) or (isinstance(v, I.ISeq) and not isinstance(v, str)):
                is_fn =isinstance(v, (I.IPersistentList, I.ISeq)) and len(list(itertools.islice(iter(v), 2))) >= 2 and isinstance(next(iter(v)), b.sym.Symbol) and next(iter(v)).name == "fn*" and m is not None and span_text(text, starts, m) is not None and (span_text(text, starts, m) or "").startswith(("#(", "("))
                # the head of a list written with a prefix reader macro ('x @x #'x ~x ~@x) is supplied by the reader, not by the text
                prefixed = isinstance(v, (I.IPersistentList, I.ISeq)) and my_text.startswith(("'", "@", "#'", "~", "#?"))
                for i, x in enumerate(v):
                    walk(x, in_fnlit or is_fn, depth + 1, synthesized=(prefixed and i == 0) or not my_text, parent_text=my_text)
            elif isinstance(v, I.IPersistentMap):
                for a, c in v.items():
                    walk(a, in_fnlit, depth + 1, synthesized=not my_text, parent_text=my_text)
                    walk(c, in_fnlit, depth + 1, synthesized=not my_text, parent_text=my_text)

        for f in forms:
            # the property is about plain, not syntax-quoted text: top-level forms containing a syntax quote are skipped
            m = getattr(f, "meta", None)
            st = span_text(text, starts, m) if m is not None and m.val_at(LINE) is not None else None
            if st is not None and "`" in st:
                out.count("toplevel_forms_skipped_syntax_quote")
                continue
            if st is None and backtick_outside_strings(text):
                # a top-level syntax quote expands into reader-made lists without a span of their own
                out.count("toplevel_forms_skipped_syntax_quote")
                continue
            walk(f, False, synthesized=True)  # top-level presence is judged for plain literals by literal_spans_present
        return seen[0]

    def literal_spans_present(text, origin):
        """a plain literal collection or symbol read from `text` alone must carry span metadata"""
        res = read(text)
        if res[0] != "forms" or len(res[1]) != 1:
            return
        v = res[1][0]
        m = getattr(v, "meta", None)
        out.count("literal_span_presence_checked")
        if m is None or m.val_at(LINE) is None or m.val_at(ECOL) is None:
            out.violation(f"C16/span/missing/{origin}", {"text": text, "meta": repr(m)}, {"kind": "text", "text": text})

    # ---- workloads -------------------------------------------------------------------------------------------------------
    def render(toks, eol="\n"):
        s = "".join(t for t, _ in toks)
        if eol != "\n":
            s = s.replace("\n", eol)
        return s

    if "replay" in spec:
        c = spec["replay"]
        if c["kind"] == "text":
            if c.get("scan"):
                scanner_check(c["text"])
            else:
                check_text(c["text"], c.get("expect"), c.get("why"))
        elif c["kind"] == "span":
            res = read(c["text"])
            if res[0] == "forms":
                check_spans(c["text"], res[1], c.get("origin"))
        return

    kind = spec["kind"]
    if kind == "exh":
        alpha = ALPHA24 if spec["alpha"].startswith("A24") else DELIMS8
        idx = 0
        for n in range(0, spec["maxlen"] + 1):
            if spec["alpha"] == "A24x" and n < spec["maxlen"]:
                continue
            for tup in itertools.product(alpha, repeat=n):
                idx += 1
                if idx % spec["parts"] != spec["part"] % spec["parts"]:
                    continue
                scanner_check("".join(tup))
            out.maybe_flush()
        out.sample({"alphabet": alpha, "maxlen": spec["maxlen"], "example": "(a\"", "scan": scan('(a"'), "outcome": read('(a"')[0]})
    elif kind == "programs":
        g = G(rnd)
        MALFORM = [(")", "stray-closer"), ("]", "stray-closer"), ("}", "stray-closer"), ('"\\q"', "bad-escape"), ("{:a}", "odd-map"), ("{:a 1 :a 2}", "duplicate-key"), ("#{1 1}", "duplicate-member"), ("(]", "mismatched-closer"), ("[}", "mismatched-closer")]
        for it in range(spec["n"]):
            toks = g.program()
            eol = ["\n", "\r\n", "\r"][it % 3]
            text = render(toks, eol)
            res = check_text(text, "forms", "generated-valid-program")
            if res[0] == "forms":
                check_spans(text, res[1], "generated")
            # prefixes at token boundaries where a form is still owed
            depth = 0
            acc = ""
            owed_prefix = False
            for ti, (t, k) in enumerate(toks):
                tt = t.replace("\n", eol) if eol != "\n" else t
                if k == "str" and len(t) > 2:
                    # cuts inside the string literal (also right after a backslash)
                    for cut in sorted({1, len(t) // 2, len(t) - 1} | {j + 1 for j, ch in enumerate(t) if ch == "\\"}):
                        if 0 < cut < len(t):
                            check_text(acc + tt[:cut], "eof", "inside-string")
                acc += tt
                if k == "open":
                    depth += 1
                elif k == "close":
                    depth -= 1
                if k == "prefix":
                    check_text(acc, "eof", "after-prefix-" + t)
                    continue
                if k == "metaws":
                    check_text(acc, "eof", "after-metadata")
                    continue
                if depth > 0 and k in ("open", "atom", "str", "ws", "close"):
                    why = "inside-" + {"(": "list", "[": "vector", "{": "map", "#{": "set", "#(": "fn-literal", "#?(": "reader-conditional"}.get(next((x for x, kk in reversed(toks[: ti + 1]) if kk == "open"), "("), "collection")
                    check_text(acc, "eof", "inside-collection")
            # tag prefix
            if it % 5 == 0:
                for tag in ("#uuid", "#inst", "#py", "#queue", "#_", "#'"):
                    check_text(text + " " + tag, "eof", "after-tag-" + tag)
                    if tag != "#'":
                        check_text(text + " " + tag + " ", "eof", "after-tag-" + tag)
            # complete but malformed
            mf, why = MALFORM[it % len(MALFORM)]
            check_text(text + eol + mf, "syntax-not-eof", why)
            check_text(mf + " " + text, "syntax-not-eof", why)
            # single character edits: totality only
            if it % 10 == 0 and len(text) < 200:
                for pos in range(len(text)):
                    check_text(text[:pos] + text[pos + 1 :])
                    check_text(text[:pos] + rnd.choice(ALPHA24) + text[pos:])
            if it < 2:
                out.sample({"program": text, "eol": repr(eol)})
            out.maybe_flush()
        # literal collections and symbols carry spans
        for lit in ["(a b)", "[a]", "{:a 1}", "#{a}", "sym", "ns/sym", "()", "[]", "{}", "#{}", "#(+ % 1)", "(a\n b)", "[\r\n]"]:
            literal_spans_present(lit, {"(": "list", "[": "vector", "{": "map", "#": "hash-dispatch"}.get(lit[0], "symbol"))
    elif kind == "sources":
        import os

        root = os.path.join(os.environ.get("VERIF_REPO", "/repo"), "src", "basilisp")
        files = []
        for dp, dn, fn in os.walk(root):
            for f in fn:
                if f.endswith(".lpy"):
                    files.append(os.path.join(dp, f))
        files.sort(key=lambda p: (os.path.getsize(p), p))
        files = files[: spec["files"]]
        ne = 0
        for fi, path in enumerate(files):
            src = open(path, encoding="utf-8").read()
            for eol in ("\n", "\r\n", "\r"):
                text = src if eol == "\n" else src.replace("\n", eol)
                res = read(text, 60.0)
                out.ev(("file", path, eol))
                ok = totality(text[:200] if res[0] != "forms" else text, res) if res[0] != "forms" else True
                if res[0] != "forms":
                    out.violation("C16/classification/valid-text-rejected/bundled-source", {"file": path, "eol": repr(eol), "outcome": res[0], "detail": str(res[1])[:200]}, {"kind": "text", "text": text[:4000], "expect": "forms", "why": "bundled-source"})
                    continue
                n = check_spans(text, res[1], os.path.basename(path) + ":" + repr(eol))
                out.count("source_files_span_checked")
            # random edits and truncations of the source: totality only
            per = max(1, spec["edits"] // max(1, len(files)))
            for _ in range(per):
                a = rnd.randrange(len(src)) if src else 0
                chunk = src[a : a + rnd.randint(1, 300)]
                op = rnd.random()
                if op < 0.4:
                    t2 = chunk
                elif op < 0.7:
                    p = rnd.randrange(len(chunk)) if chunk else 0
                    t2 = chunk[:p] + chunk[p + 1 :]
                else:
                    p = rnd.randrange(len(chunk)) if chunk else 0
                    t2 = chunk[:p] + rnd.choice(ALPHA24) + chunk[p:]
                check_text(t2)
                ne += 1
            out.maybe_flush()
        out.sample({"files": [os.path.basename(p) for p in files]})
