"""C20 — integer/ratio arithmetic is exact; quot/rem/mod identities; type contagion; routes agree.

Monitor: differential against exact rational arithmetic (fractions.Fraction) + algebraic identities,
over three evaluation routes of the real core functions:
  call   compiled (fn [a b] (op a b)) with inlining on
  noinl  the same compiled with inline-functions off
  apply  (apply op [a b])
  lit    (op <literal> <literal>) compiled per pair (operands are source literals; sample)
"""
from __future__ import annotations

import itertools
import math
import random
from decimal import Decimal
from fractions import Fraction

OPS2 = ["+", "-", "*", "/", "quot", "rem", "mod"]
OPS1 = ["inc", "dec", "-", "/", "abs"]


def universe():
    ints = [0, 1, -1, 2, -2, 7, -7, 3, 2**31, -(2**31), 2**53 + 1, 2**53 - 1, 2**64, 10**30 + 1, -(10**30) - 1, 6]
    ratios = [Fraction(1, 2), Fraction(-1, 2), Fraction(7, 3), Fraction(-7, 3), Fraction(10**30, 3), Fraction(3, 7), Fraction(-9, 4)]
    decs = [Decimal("0"), Decimal("1.5"), Decimal("-1.5"), Decimal("2"), Decimal("0.1"), Decimal("-7.25"), Decimal("1E+3")]
    floats = [0.0, -0.0, 0.5, -0.5, 2.5, -2.5, 7.0, 1e15, -3.0, 0.1]
    return ints + ratios + decs + floats


def plan(tier, seed):
    n_rand = 40000 if tier == "quick" else 16000000
    nsh = 4 if tier == "quick" else 16
    shards = [{"kind": "pairs", "part": i, "parts": nsh, "n_rand": n_rand // nsh, "n_lit": (400 if tier == "quick" else 3000)} for i in range(nsh)]
    return {
        "level": "exploration",
        "rule": "operand tuples (op, x, y) over a 40-element universe of ints/ratios/decimals/floats (all ordered pairs, exhaustive) plus random "
        "big ints/ratios up to 2^200, n-ary chains; each through routes call/noinl/apply (+ literal-operand compile on a sample). "
        "distinct = distinct (op, x, y); non-trivial = every case (each is compared with exact rational arithmetic or an identity).",
        "shards": shards,
        "min_evaluations": 5000,
        "watchdog_s": 900 if tier == "quick" else 3000,
        "assumptions": ["fractions.Fraction / int arithmetic of CPython is the exact reference", "float/decimal results are only checked for type, route agreement and 1e-9 relative closeness"],
    }


def tclass(v):
    if isinstance(v, bool):
        return "bool"
    if isinstance(v, int):
        return "int"
    if isinstance(v, Fraction):
        return "ratio"
    if isinstance(v, Decimal):
        return "decimal"
    if isinstance(v, float):
        return "float"
    return type(v).__name__


def contagion(*xs):
    cs = {tclass(x) for x in xs}
    if "float" in cs:
        return "float"
    if "decimal" in cs:
        return "decimal"
    return "exact"


def rclass(v):
    c = tclass(v)
    return "exact" if c in ("int", "ratio") else c


def exact_ref(op, x, y):
    x, y = Fraction(x), Fraction(y)
    if op == "+":
        r = x + y
    elif op == "-":
        r = x - y
    elif op == "*":
        r = x * y
    elif op == "/":
        r = x / y
    elif op == "quot":
        r = Fraction(math.trunc(x / y))
    elif op == "rem":
        r = x - y * math.trunc(x / y)
    elif op == "mod":
        r = x - y * math.floor(x / y)
    return r.numerator if r.denominator == 1 else r


def same(a, b):
    """exact same value and type (NaN == NaN, -0.0 != 0.0)"""
    if type(a) is not type(b):
        return False
    if isinstance(a, float):
        if a != a or b != b:
            return a != a and b != b
        return a == b and math.copysign(1, a) == math.copysign(1, b)
    if isinstance(a, Decimal):
        if a.is_nan() or b.is_nan():
            return a.is_nan() and b.is_nan()
        return a == b
    return a == b


def lit(v):
    if isinstance(v, Fraction):
        return f"{v.numerator}/{v.denominator}"
    if isinstance(v, Decimal):
        return f"{v}M"
    if isinstance(v, float):
        s = repr(v)
        if "e" in s or "n" in s:
            return None
        return s
    return str(v)


def sign(v):
    return (v > 0) - (v < 0)


def worker(spec, out):
    from vf import boot

    b = boot.init()
    rnd = random.Random(spec["seed"])
    ns = b.fresh_ns("vf.c20.")
    fns = {}
    for op in OPS2:
        fns[("call", op)] = b.eval_str(f"(fn [a b] ({op} a b))", ns=ns, opts=b.opts(inline_functions=True))
        fns[("noinl", op)] = b.eval_str(f"(fn [a b] ({op} a b))", ns=ns, opts=b.opts(inline_functions=False, generate_auto_inlines=False))
        corefn = b.core(op)
        apply_ = b.core("apply")
        fns[("apply", op)] = (lambda f: (lambda a, bb: apply_(f, b.vec.v(a, bb))))(corefn)
    for op in OPS1:
        fns[("call1", op)] = b.eval_str(f"(fn [a] ({op} a))", ns=ns, opts=b.opts(inline_functions=True))
        fns[("noinl1", op)] = b.eval_str(f"(fn [a] ({op} a))", ns=ns, opts=b.opts(inline_functions=False, generate_auto_inlines=False))
        fns[("apply1", op)] = (lambda f: (lambda a: b.core("apply")(f, b.vec.v(a))))(b.core(op))
    nary = {op: b.core(op) for op in ["+", "-", "*", "/"]}

    def run(f, *args):
        try:
            return ("v", f(*args))
        except Exception as e:
            return ("x", type(e).__name__)

    def check_pair(op, x, y, also_lit=False):
        case = {"op": op, "x": repr(x), "y": repr(y)}
        out.ev(("2", op, repr(x), repr(y)))
        res = {r: run(fns[(r, op)], x, y) for r in ("call", "noinl", "apply")}
        if also_lit:
            lx, ly = lit(x), lit(y)
            if lx is not None and ly is not None:
                out.count("literal_compiles")
                try:
                    res["lit"] = ("v", b.eval_str(f"({op} {lx} {ly})", ns=ns))
                except Exception as e:
                    res["lit"] = ("x", type(e).__name__)
        base = res["apply"]
        for r, v in res.items():
            ok = (v[0] == base[0]) and (same(v[1], base[1]) if v[0] == "v" else v[1] == base[1])
            if not ok:
                out.violation(f"C20/route/{op}/{r}-vs-apply", {"case": case, "results": {k: repr(v) for k, v in res.items()}}, {"kind": "pair", **case})
                return
        exact = contagion(x, y) == "exact"
        zero_div = op in ("/", "quot", "rem", "mod") and y == 0
        if exact:
            if zero_div:
                out.count("zero_divisor_cases")
                if base[0] != "x":
                    out.violation(f"C20/zero-divisor-no-raise/{op}", {"case": case, "got": repr(base)}, {"kind": "pair", **case})
                return
            exp = exact_ref(op, x, y)
            if base[0] != "v" or not same(base[1], exp):
                out.violation(f"C20/exact/{op}", {"case": case, "expected": repr(exp), "got": repr(base)}, {"kind": "pair", **case})
            return
        if base[0] == "x":
            out.count("inexact_raises")
            if not zero_div and base[1] not in ("OverflowError", "InvalidOperation", "DivisionByZero", "ZeroDivisionError"):
                out.violation(f"C20/inexact-raise/{op}/{base[1]}", {"case": case, "got": repr(base)}, {"kind": "pair", **case})
            return
        v = base[1]
        want = contagion(x, y)
        if rclass(v) != want:
            out.violation(f"C20/type/{op}/{tclass(x)}-{tclass(y)}", {"case": case, "expected_class": want, "got": repr(v)}, {"kind": "pair", **case})
            return
        if zero_div:
            return
        # closeness to the exact rational value (no exactness claim)
        try:
            fx, fy = Fraction(x), Fraction(y)
            exp = Fraction(exact_ref(op, fx, fy))
            got = Fraction(v)
            tol = Fraction(1, 10**9) if want == "float" else Fraction(1, 10**20)
            scale = max(abs(exp), abs(fx), abs(fy), 1)
            if op in ("quot", "rem", "mod") and want == "float":
                pass  # float floor/trunc near integers may legitimately differ by one divisor step
            elif abs(got - exp) > tol * scale:
                out.violation(f"C20/inexact-value/{op}/{want}", {"case": case, "expected~": str(float(exp)), "got": repr(v)}, {"kind": "pair", **case})
        except (OverflowError, ValueError):
            pass

    def check_identities(x, y):
        if y == 0:
            return
        exact = contagion(x, y) == "exact"
        if not exact:
            # only moderate finite operands, tolerance based
            if any(abs(t) > 10**6 for t in (x, y)):
                return
        q = run(fns[("call", "quot")], x, y)
        r = run(fns[("call", "rem")], x, y)
        m = run(fns[("call", "mod")], x, y)
        case = {"x": repr(x), "y": repr(y), "quot": repr(q), "rem": repr(r), "mod": repr(m)}
        out.ev(("id", repr(x), repr(y)))
        if "x" in (q[0], r[0], m[0]):
            out.violation("C20/identity/raises", case, {"kind": "ident", "x": repr(x), "y": repr(y)})
            return
        q, r, m = q[1], r[1], m[1]
        fx, fy, fq, fr, fm = (Fraction(t) for t in (x, y, q, r, m))
        tol = 0 if exact else Fraction(1, 10**9) * max(abs(fx), abs(fy), 1)
        bad = []
        if abs(fx - (fy * fq + fr)) > tol:
            bad.append("x!=y*quot+rem")
        if fq.denominator != 1:
            bad.append("quot-not-integral")
        if not (abs(fr) < abs(fy) + tol):
            bad.append("|rem|>=|y|")
        if not (abs(fm) < abs(fy) + tol):
            bad.append("|mod|>=|y|")
        if abs(fr) > tol and sign(fr) != sign(fx):
            bad.append("rem-sign")
        if abs(fm) > tol and sign(fm) != sign(fy):
            bad.append("mod-sign")
        d = (fm - fr) / fy
        if abs(d - round(d)) > (0 if exact else Fraction(1, 10**6)):
            bad.append("mod-rem-not-congruent")
        for bk in bad:
            out.violation(f"C20/identity/{bk}/{'exact' if exact else contagion(x, y)}", case, {"kind": "ident", "x": repr(x), "y": repr(y)})

    def check_unary(op, x):
        out.ev(("1", op, repr(x)))
        res = {r: run(fns[(r, op)], x) for r in ("call1", "noinl1", "apply1")}
        base = res["apply1"]
        case = {"op": op, "x": repr(x)}
        for r, v in res.items():
            ok = (v[0] == base[0]) and (same(v[1], base[1]) if v[0] == "v" else v[1] == base[1])
            if not ok:
                out.violation(f"C20/route1/{op}/{r}-vs-apply", {"case": case, "results": {k: repr(v) for k, v in res.items()}}, {"kind": "unary", **case})
                return
        if contagion(x) == "exact":
            if op == "/" and x == 0:
                if base[0] != "x":
                    out.violation("C20/zero-divisor-no-raise/unary-/", case, {"kind": "unary", **case})
                return
            fx = Fraction(x)
            exp = {"inc": fx + 1, "dec": fx - 1, "-": -fx, "/": (1 / fx) if fx else None, "abs": abs(fx)}[op]
            exp = exp.numerator if exp.denominator == 1 else exp
            if base[0] != "v" or not same(base[1], exp):
                out.violation(f"C20/exact1/{op}", {"case": case, "expected": repr(exp), "got": repr(base)}, {"kind": "unary", **case})

    def check_nary(op, xs):
        out.ev(("n", op, repr(xs)))
        f = nary[op]
        got = run(lambda: f(*xs))
        got2 = run(lambda: b.core("apply")(f, b.vec.vector(xs)))
        case = {"op": op, "xs": repr(xs)}
        if got[0] != got2[0] or (got[0] == "v" and not same(got[1], got2[1])):
            out.violation(f"C20/route-nary/{op}", {"case": case, "direct": repr(got), "apply": repr(got2)}, {"kind": "nary", **case})
            return
        if contagion(*xs) == "exact":
            try:
                acc = Fraction(xs[0])
                if len(xs) == 1:
                    acc = acc if op in "+*" else (-acc if op == "-" else 1 / acc)
                for t in xs[1:]:
                    t = Fraction(t)
                    acc = acc + t if op == "+" else acc - t if op == "-" else acc * t if op == "*" else acc / t
            except ZeroDivisionError:
                if got[0] != "x":
                    out.violation(f"C20/zero-divisor-no-raise/nary-{op}", case, {"kind": "nary", **case})
                return
            exp = acc.numerator if acc.denominator == 1 else acc
            if got[0] != "v" or not same(got[1], exp):
                out.violation(f"C20/exact-nary/{op}", {"case": case, "expected": repr(exp), "got": repr(got)}, {"kind": "nary", **case})

    def parse(s):
        return eval(s, {"Fraction": Fraction, "Decimal": Decimal, "inf": math.inf, "nan": math.nan})

    if "replay" in spec:
        c = spec["replay"]
        if c["kind"] == "pair":
            check_pair(c["op"], parse(c["x"]), parse(c["y"]), also_lit=True)
        elif c["kind"] == "ident":
            check_identities(parse(c["x"]), parse(c["y"]))
        elif c["kind"] == "unary":
            check_unary(c["op"], parse(c["x"]))
        elif c["kind"] == "nary":
            check_nary(c["op"], parse(c["xs"]))
        return

    U = universe()
    pairs = list(itertools.product(U, U))
    part, parts = spec["part"], spec["parts"]
    mine = pairs[part::parts]
    lit_budget = spec["n_lit"]
    for i, (x, y) in enumerate(mine):
        for op in OPS2:
            do_lit = lit_budget > 0 and rnd.random() < 0.15
            if do_lit:
                lit_budget -= 1
            check_pair(op, x, y, also_lit=do_lit)
        check_identities(x, y)
        # symmetry of type and value for + and *
        for op in ("+", "*"):
            a = run(fns[("call", op)], x, y)
            c = run(fns[("call", op)], y, x)
            out.ev(("sym", op, repr(x), repr(y)))
            if a[0] != c[0] or (a[0] == "v" and not same(a[1], c[1])):
                # -0.0 + 0.0 style sign differences are not order dependent in IEEE; any difference is reported
                out.violation(f"C20/commutativity/{op}/{tclass(x)}-{tclass(y)}", {"x": repr(x), "y": repr(y), "xy": repr(a), "yx": repr(c)}, {"kind": "pair", "op": op, "x": repr(x), "y": repr(y)})
        if i < 3:
            out.sample({"op": "quot/rem/mod", "x": repr(x), "y": repr(y), "quot": repr(run(fns[("call", "quot")], x, y))})
    for x in U[part::parts]:
        for op in OPS1:
            check_unary(op, x)

    def rbig():
        k = rnd.choice([8, 31, 53, 64, 100, 200])
        n = rnd.getrandbits(k) * rnd.choice([1, -1])
        if rnd.random() < 0.4:
            d = rnd.getrandbits(rnd.choice([3, 16, 70])) + 1
            f = Fraction(n, d)
            return f.numerator if f.denominator == 1 else f
        return n

    for i in range(spec["n_rand"]):
        x, y = rbig(), rbig()
        op = rnd.choice(OPS2)
        check_pair(op, x, y, also_lit=(lit_budget > 0 and i % 40 == 0))
        check_identities(x, y)
        if i % 5 == 0:
            xs = [rbig() for _ in range(rnd.randint(1, 5))]
            check_nary(rnd.choice(["+", "-", "*", "/"]), xs)
        if i % 7 == 0:
            check_unary(rnd.choice(OPS1), x)
        if i < 2:
            out.sample({"op": op, "x": repr(x), "y": repr(y)})
