"""C11 — dynamic bindings are scoped, thread-local and conveyed to futures.

Monitor: a per-thread model (stack of binding frames; visible value = innermost binding else root) is compared with derefs of
three dynamic Vars (and thread-bound?) after every step of generated nested histories of
  push (binding / with-bindings), pop, set!, throw, failed establishment (non-dynamic Var or validator-rejected value at
  every position and for every push order), convey (bound-fn same/other thread, future, pmap) and isolated reader threads;
the restore oracle is checked at the client boundary: after leaving any binding form - by return, by exception, or because
establishing failed - the visible values equal those before entry. Multi-threaded runs are serialised by the cooperative
scheduler; each thread is judged against its own model.
"""
from __future__ import annotations

import itertools
import random
import threading
import time


def plan(tier, seed):
    q = tier == "quick"
    shards = [{"kind": "faults"}]
    for i in range(5 if q else 12):
        shards.append({"kind": "histories", "n": 300 if q else 6000, "depth": 4})
    for i in range(4 if q else 8):
        shards.append({"kind": "threads", "n": 120 if q else 3000, "threads": 2 + i % 2})
    shards.append({"kind": "threads-bounded", "max_preemptions": 2, "max_schedules": 800 if q else 20000, "budget_s": 40 if q else 900})
    return {
        "level": "fault_enumeration",
        "rule": "(a) fault enumeration: for every binding map over subsets of 3 dynamic Vars with a failing member (non-dynamic Var / validator-rejected value) at every position and every push order, "
        "through binding, with-bindings and push-thread-bindings, at nesting depth 0-2; (b) random well-nested histories to depth 4 of push/pop/set!/throw/failed-establishment/convey(bound-fn, future, pmap)/"
        "isolated-reader steps with a deref of every Var after every step; (c) 2-3 threads running such histories under the cooperative scheduler (random walks and <= 2-preemption enumeration). "
        "distinct = distinct (history, push order / interleaving); non-trivial = histories with at least one binding frame.",
        "shards": shards,
        "min_evaluations": 500,
        "watchdog_s": 900 if q else 3400,
        "assumptions": ["bindings established by the harness bootstrap (*ns*) are part of the baseline snapshot", "pmap is realised (doall) inside the binding scope where it is created",
                        "set! outside any binding frame is not generated"],
    }


def worker(spec, out):
    from vf import boot, sched

    b = boot.init()
    rnd = random.Random(spec["seed"])
    rt = b.runtime
    C = b.core
    K, V, M = b.kw.keyword, b.vec.vector, b.lmap.map
    multi = spec.get("kind", "").startswith("threads") or (spec.get("replay") or {}).get("kind") == "threads"
    proxy = sched.ThreadingProxy()
    if multi:
        # make every Var lock visible to the scheduler (a thread parked inside Var.value must not hold an invisible lock)
        rt.threading = proxy
        for nsobj in list(rt.Namespace._NAMESPACES.deref().values()) if hasattr(rt.Namespace, "_NAMESPACES") else []:
            for v in nsobj.interns.values():
                try:
                    v._lock = proxy.RLock()
                except Exception:
                    pass

    ns = b.fresh_ns("vf.c11.")
    b.eval_str("(def ^:dynamic *a* :ra) (def ^:dynamic *b* :rb) (def ^:dynamic *c* :rc) (def nd :rnd)", ns=ns)
    VA, VB, VC, ND = (ns.find(b.sym.symbol(n)) for n in ("*a*", "*b*", "*c*", "nd"))
    VARS = {"a": VA, "b": VB, "c": VC}
    BAD = K("bad")
    VC.set_validator(lambda v: v is not BAD)
    read_all = b.eval_str("(fn [] [*a* *b* *c* (thread-bound? #'*a*) (thread-bound? #'*b*) (thread-bound? #'*c*)])", ns=ns)
    setters = {k: b.eval_str(f"(fn [v] (set! *{k}* v))", ns=ns) for k in "abc"}
    # binding macro templates for every non-empty subset, with and without the non-dynamic Var
    tmpl = {}
    for r in range(1, 4):
        for sub in itertools.combinations("abc", r):
            for with_nd in (False, True):
                args = " ".join(f"v{k}" for k in sub)
                binds = " ".join(f"*{k}* v{k}" for k in sub) + (" nd vnd" if with_nd else "")
                params = args + (" vnd" if with_nd else "")
                tmpl[(sub, with_nd)] = b.eval_str(f"(fn [body {params}] (binding [{binds}] (body)))", ns=ns)
    with_bindings_star = C("with-bindings*")
    mk_bound_fn = b.eval_str("(fn [f] (bound-fn* f))", ns=ns)
    mk_future = b.eval_str("(fn [f] (future-call f))", ns=ns)
    do_pmap = b.eval_str("(fn [f xs] (doall (pmap f xs)))", ns=ns)

    class OrderedMap:
        """a binding map with an explicit push order (push_thread_bindings only iterates .items())"""

        def __init__(self, pairs):
            self.pairs = pairs

        def items(self):
            return list(self.pairs)

        def __len__(self):
            return len(self.pairs)

    ROOT = {"a": K("ra"), "b": K("rb"), "c": K("rc")}

    def observe():
        r = read_all()
        return {"a": r[0], "b": r[1], "c": r[2], "ba": bool(r[3]), "bb": bool(r[4]), "bc": bool(r[5])}

    class Model:
        def __init__(self):
            self.frames = []  # list of dict var->value

        def visible(self):
            vis = dict(ROOT)
            bound = {"a": False, "b": False, "c": False}
            for f in self.frames:
                for k, v in f.items():
                    vis[k] = v
                    bound[k] = True
            return {"a": vis["a"], "b": vis["b"], "c": vis["c"], "ba": bound["a"], "bb": bound["b"], "bc": bound["c"]}

        def flat(self):
            d = {}
            for f in self.frames:
                d.update(f)
            return d

    class Mismatch(Exception):
        def __init__(self, key, wit):
            self.key, self.wit = key, wit

    tok = itertools.count(1)

    def run_steps(steps, model, log, depth=0, other_thread_runner=None):
        """interpret a nested history; raises Mismatch at the first oracle failure"""
        for st in steps:
            k = st[0]
            before = observe()
            mb = model.visible()
            if before != mb:
                raise Mismatch("C11/model/visible-values-differ", {"step": "before " + k, "observed": pr(before), "model": pr(mb), "log": log[-12:]})
            if k == "frame":
                _, how, binds, body, exit_kind = st
                log.append(f"enter {how} {sorted(binds)} exit={exit_kind}")
                frame = {kk: vv for kk, vv in binds}

                def body_fn():
                    model.frames.append(frame)
                    inside = observe()
                    if inside != model.visible():
                        raise Mismatch("C11/model/binding-not-visible-inside-form", {"observed": pr(inside), "model": pr(model.visible()), "log": log[-12:]})
                    try:
                        run_steps(body, model, log, depth + 1)
                        if exit_kind == "throw":
                            raise KeyError("body failed")
                    finally:
                        model.frames.pop()
                    return "body-result"

                try:
                    if how == "binding":
                        sub = tuple(sorted(kk for kk, _ in binds))
                        vals = dict(binds)
                        tmpl[(sub, False)](body_fn, *[vals[x] for x in sub])
                    elif how == "with-bindings":
                        with_bindings_star(M({VARS[kk]: vv for kk, vv in binds}), body_fn)
                    else:
                        with_bindings_star(OrderedMap([(VARS[kk], vv) for kk, vv in binds]), body_fn)
                    if exit_kind == "throw":
                        raise Mismatch("C11/scope/exception-swallowed-by-binding-form", {"log": log[-12:]})
                except KeyError:
                    if exit_kind != "throw":
                        raise
                log.append("left frame")
                out.count("frames_entered")
            elif k == "fail":
                # establishing a multi-Var binding fails at position `pos` of the push order
                _, how, order, failing = st
                log.append(f"failed-establish {how} order={[o for o, _ in order]} failing={failing}")

                def never():
                    raise Mismatch("C11/scope/body-ran-although-establishing-failed", {"log": log[-12:]})

                pairs = []
                for name, val in order:
                    if name == "nd":
                        pairs.append((ND, val))
                    else:
                        pairs.append((VARS[name], val))
                raised = False
                try:
                    if how == "binding":
                        sub = tuple(sorted(n for n, _ in order if n != "nd"))
                        vals = dict(order)
                        has_nd = "nd" in vals
                        tmpl[(sub, has_nd)](never, *([vals[x] for x in sub] + ([vals["nd"]] if has_nd else [])))
                    elif how == "with-bindings":
                        with_bindings_star(M(dict(pairs)), never)
                    elif how == "ordered":
                        with_bindings_star(OrderedMap(pairs), never)
                    else:
                        C("push-thread-bindings")(OrderedMap(pairs))
                        C("pop-thread-bindings")()
                except Mismatch:
                    raise
                except Exception:
                    raised = True
                out.count("failed_establishments")
                if not raised:
                    raise Mismatch("C11/scope/failing-binding-map-accepted", {"log": log[-12:]})
            elif k == "set":
                _, name, val = st
                if not any(name in f for f in model.frames):
                    continue
                log.append(f"set! {name} {pr(val)}")
                setters[name](val)
                for f in reversed(model.frames):
                    if name in f:
                        f[name] = val
                        break
                out.count("set_bang")
            elif k == "convey":
                _, how = st
                log.append("convey " + how)
                want = model.visible()
                want = {kk: want[kk] for kk in "abc"}
                got = {}

                def probe(*_a):
                    o = observe()
                    return {kk: o[kk] for kk in "abc"}

                if how == "bound-fn-same-thread":
                    got = mk_bound_fn(probe)()
                elif how == "bound-fn-other-thread":
                    f = mk_bound_fn(probe)
                    box = []
                    th = threading.Thread(target=lambda: box.append(f()))
                    th.start()
                    th.join(30)
                    got = box[0] if box else None
                elif how == "future":
                    got = mk_future(probe).deref(30, None)
                elif how == "pmap":
                    res = list(do_pmap(probe, V([1, 2])))
                    got = res[0] if res and all(r == res[0] for r in res) else {"results": res}
                elif how == "get-thread-bindings":
                    gb = C("get-thread-bindings")()
                    flat = model.flat()
                    got = dict(want)
                    for kk in "abc":
                        v = gb.val_at(VARS[kk]) if gb is not None else None
                        if kk in flat and v != flat[kk]:
                            got[kk] = v
                out.count("conveyances")
                if got != want:
                    raise Mismatch(f"C11/conveyance/{how}/sees-other-bindings-than-creator", {"creator_sees": pr(want), "conveyed_work_sees": pr(got), "log": log[-12:]})
            elif k == "isolated-reader":
                log.append("isolated reader thread")
                box = []
                th = threading.Thread(target=lambda: box.append(observe()))
                th.start()
                th.join(30)
                out.count("isolated_reads")
                want = {"a": ROOT["a"], "b": ROOT["b"], "c": ROOT["c"], "ba": False, "bb": False, "bc": False}
                if not box or box[0] != want:
                    raise Mismatch("C11/isolation/other-thread-sees-binding", {"other_thread_sees": pr(box[0]) if box else None, "log": log[-12:]})
            after = observe()
            ma = model.visible()
            if k in ("frame", "fail"):
                # restore oracle at the client boundary: the values before entry, except for set! made inside the form on Vars
                # bound by an OUTER frame (set! changes the innermost binding of that Var, which outlives the inner form) -
                # exactly what the model holds after popping the form's own frame
                if after != ma:
                    raise Mismatch(f"C11/restore/{'failed-establishment' if k == 'fail' else 'exit-by-' + ('exception' if st[4] == 'throw' else 'return')}/values-differ-after-leaving-form",
                                   {"before": pr(before), "after": pr(after), "log": log[-12:]})
            if after != ma:
                raise Mismatch("C11/model/visible-values-differ", {"step": "after " + k, "observed": pr(after), "model": pr(ma), "log": log[-12:]})

    def pr(d):
        if isinstance(d, dict):
            return {k: (v.name if hasattr(v, "name") else v) for k, v in d.items()}
        return getattr(d, "name", d)

    def gen_steps(depth, r=None):
        r = r or rnd
        steps = []
        for _ in range(r.randint(1, 4)):
            t = r.random()
            if t < 0.4 and depth > 0:
                sub = r.sample("abc", r.randint(1, 3))
                binds = [(k, K("v%d" % next(tok))) for k in sub]
                steps.append(("frame", r.choice(["binding", "with-bindings", "ordered"]), binds, gen_steps(depth - 1, r), r.choice(["return", "return", "throw"])))
            elif t < 0.55:
                sub = r.sample("abc", r.randint(1, 3))
                failing = r.choice(["nd", "c"])
                order = [(k, K("v%d" % next(tok))) for k in sub if not (failing == "c" and k == "c")]
                pos = r.randint(0, len(order))
                order.insert(pos, ("nd", K("x")) if failing == "nd" else ("c", BAD))
                steps.append(("fail", r.choice(["binding", "with-bindings", "ordered", "push"]), order, failing))
            elif t < 0.75:
                steps.append(("set", r.choice("abc"), K("s%d" % next(tok))))
            elif t < 0.92:
                steps.append(("convey", r.choice(["bound-fn-same-thread", "bound-fn-other-thread", "future", "pmap", "get-thread-bindings"])))
            else:
                steps.append(("isolated-reader",))
        return steps

    def run_history(steps, label, case):
        model = Model()
        log = []
        out.ev((label, repr(steps)[:3000]) if any(s[0] == "frame" for s in steps) else None)
        try:
            run_steps(steps, model, log)
        except Mismatch as m:
            out.violation(m.key, m.wit, case)
            cleanup()
            return False
        except Exception as e:
            out.violation(f"C11/harness/unexpected-{type(e).__name__}", {"exc": repr(e)[:200], "log": log[-12:]}, case)
            cleanup()
            return False
        return True

    def cleanup():
        """best effort: drop leaked bindings so that later histories start from the baseline"""
        for v in (VA, VB, VC):
            try:
                while v.is_thread_bound:
                    v.pop_bindings()
            except Exception:
                break

    def enc(steps):
        o = []
        for st in steps:
            if st[0] == "frame":
                o.append(["frame", st[1], [[k, v.name] for k, v in st[2]], enc(st[3]), st[4]])
            elif st[0] == "fail":
                o.append(["fail", st[1], [[k, v.name] for k, v in st[2]], st[3]])
            elif st[0] == "set":
                o.append(["set", st[1], st[2].name])
            else:
                o.append(list(st))
        return o

    def dec(steps):
        o = []
        for st in steps:
            if st[0] == "frame":
                o.append(("frame", st[1], [(k, K(v)) for k, v in st[2]], dec(st[3]), st[4]))
            elif st[0] == "fail":
                o.append(("fail", st[1], [(k, (BAD if v == "bad" else K(v))) for k, v in st[2]], st[3]))
            elif st[0] == "set":
                o.append(("set", st[1], K(st[2])))
            else:
                o.append(tuple(st))
        return o

    # ---- multi-threaded ------------------------------------------------------------------------------------------------------
    def thread_scenario(histories, chooser):
        results = [None] * len(histories)

        def mk(i, steps):
            def fn():
                model = Model()
                log = []
                try:
                    run_steps(steps, model, log)
                    results[i] = ("ok", None)
                except Mismatch as m:
                    results[i] = ("mismatch", (m.key, m.wit))
                except Exception as e:
                    results[i] = ("error", repr(e)[:200])
            return fn

        Var = rt.Var
        codes = sched.code_objects(Var.push_bindings, Var.pop_bindings, Var.set_value, type(Var).__dict__.get("value", Var.value).fget if isinstance(vars(Var).get("value"), property) else Var.deref,
                                   rt.push_thread_bindings, rt.pop_thread_bindings, rt.get_thread_bindings, rt._ThreadBindings.push_bindings, rt._ThreadBindings.pop_bindings, rt._ThreadBindings.get_bindings,
                                   vars(Var)["is_thread_bound"].fget, with_bindings_star)
        s = sched.Sched([mk(i, h) for i, h in enumerate(histories)], codes, chooser, max_steps=20000)
        s.run()
        return s, results

    def no_other_threads(steps):
        """scheduler runs keep every step inside the controlled thread"""
        o = []
        for st in steps:
            if st[0] == "frame":
                o.append(("frame", st[1], st[2], no_other_threads(st[3]), st[4]))
            elif st[0] == "convey" and st[1] in ("bound-fn-other-thread", "future", "pmap"):
                o.append(("convey", "bound-fn-same-thread"))
            elif st[0] == "isolated-reader":
                continue
            else:
                o.append(st)
        return o

    def judge_threads(s, results, hs, case, label):
        nsw = sum(1 for i in range(1, len(s.trace)) if s.trace[i][0] != s.trace[i - 1][0])
        out.ev(("threads", label, hash(s.schedule_id())) if nsw else None)
        out.count("context_switches", nsw)
        if s.stuck:
            if s.stuck["reason"].startswith(("deadlock", "step bound")):
                out.violation("C11/threads/" + ("deadlock" if s.stuck["reason"].startswith("deadlock") else "step-bound-exceeded"), {"stuck": s.stuck}, case)
            else:
                out.incon("scheduler lost a thread: " + s.stuck["reason"], case)
            return
        for i, r in enumerate(results):
            if r is None:
                out.violation("C11/threads/thread-did-not-finish", {"thread": i}, case)
                return
            if r[0] == "mismatch":
                out.violation(r[1][0] + "/interleaved", dict(r[1][1], thread=i), case)
                return
            if r[0] == "error":
                out.violation("C11/harness/unexpected-error-in-thread", {"thread": i, "exc": r[1]}, case)
                return

    if "replay" in spec:
        c = spec["replay"]
        if c["kind"] == "history":
            run_history(dec(c["steps"]), "replay", c)
        elif c["kind"] == "threads":
            hs = [dec(h) for h in c["histories"]]
            s, results = thread_scenario(hs, sched.replay_chooser(c["choices"]))
            judge_threads(s, results, hs, c, "replay")
        return

    kind = spec["kind"]
    if kind == "faults":
        n = 0
        for how in ("ordered", "push", "binding", "with-bindings"):
            for r in range(1, 4):
                for sub in itertools.permutations("abc", r):
                    for failing in ("nd", "c"):
                        dyn = [k for k in sub if not (failing == "c" and k == "c")]
                        for pos in range(len(dyn) + 1):
                            order = [(k, K("v%d" % next(tok))) for k in dyn]
                            order.insert(pos, ("nd", K("x")) if failing == "nd" else ("c", BAD))
                            if how in ("binding", "with-bindings") and pos != 0 and list(sub) != sorted(sub):
                                continue  # real maps: the push order is not ours to choose; one instance per subset
                            for nest in range(3):
                                steps = [("fail", how, order, failing)]
                                for lvl in range(nest):
                                    steps = [("frame", "binding", [(("a", "b", "c")[lvl], K("outer%d" % lvl))], steps + [("convey", "get-thread-bindings")], "return")]
                                steps = steps + [("convey", "bound-fn-same-thread")]
                                n += 1
                                run_history(steps, "fault", {"kind": "history", "steps": enc(steps)})
        out.setx("fault_cases", n)
        out.sample({"fault_case": enc([("fail", "ordered", [("a", K("v")), ("nd", K("x"))], "nd")])})
    elif kind == "histories":
        for it in range(spec["n"]):
            steps = gen_steps(spec["depth"])
            run_history(steps, "random", {"kind": "history", "steps": enc(steps)})
            if it < 2:
                out.sample({"history": enc(steps)})
            out.maybe_flush()
    elif kind == "threads":
        for it in range(spec["n"]):
            hs = [no_other_threads(gen_steps(3)) for _ in range(spec["threads"])]
            r2 = random.Random(rnd.getrandbits(32))
            s, results = thread_scenario(hs, sched.random_chooser(r2, rnd.choice([0.2, 0.5, 0.8])))
            judge_threads(s, results, hs, {"kind": "threads", "histories": [enc(h) for h in hs], "choices": [d[1] for d in s.decisions]}, "random")
            out.maybe_flush()
    elif kind == "threads-bounded":
        hs = [
            [("frame", "binding", [("a", K("t0a"))], [("set", "a", K("t0s")), ("convey", "bound-fn-same-thread")], "return")],
            [("frame", "ordered", [("a", K("t1a")), ("b", K("t1b"))], [("fail", "ordered", [("a", K("z")), ("nd", K("x"))], "nd")], "throw")],
        ]
        deadline = time.time() + spec["budget_s"]
        n = 0

        def make_run(chooser):
            s, results = thread_scenario(hs, chooser)
            s._j = results
            return s

        for s in sched.explore_bounded(make_run, spec["max_preemptions"], spec["max_schedules"], deadline):
            n += 1
            judge_threads(s, s._j, hs, {"kind": "threads", "histories": [enc(h) for h in hs], "choices": [d[1] for d in s.decisions]}, "bounded")
            out.maybe_flush()
        out.setx("threads_bounded", {"schedules": n, "enumeration_complete": not (n >= spec["max_schedules"] or time.time() > deadline)})
