"""C10 — a name denotes one binding, and reading it sees the value last given to it.

History + executable model: after every step of a history of def / redefinition (plain, ^:dynamic, ^:redef, ^:private) /
alias / refer (with :only and :rename) / alter-var-root / thread binding / local shadowing over a pool of names with munging
near-collisions, every spelling of every name (bare, alias/name, full.ns/name, @#'name, (var-get (resolve 'name)), syntax-quote
resolution) is compiled and run under direct linking and var indirection, with and without inlining, from the defining
namespace and from another one, and compared with the model (ns, name) -> Var -> (root, last def value).
"""
from __future__ import annotations

import itertools
import random

NAMES = ["v", "w", "a-b", "a_b", "x?", "x__Q__", "print", "print_", "class", "str", "<lt", "*star*"]
COLLIDING = [("a-b", "a_b"), ("x?", "x__Q__"), ("print", "print_")]
MODES = [dict(), dict(use_var_indirection=True), dict(inline_functions=False), dict(use_var_indirection=True, inline_functions=False, generate_auto_inlines=False)]


def plan(tier, seed):
    q = tier == "quick"
    shards = []
    for i in range(8 if q else 16):
        shards.append({"kind": "histories", "n": 70 if q else 600, "maxlen": 6 if q else 25})
    shards.append({"kind": "fixed"})
    return {
        "level": "exploration",
        "rule": "histories (length <= 6, thorough <= 25) of def/redefinition (keeping the Var's flags or marking a so far plain Var ^:redef / ^:dynamic)/dynamic/redef-meta/private/alias/refer(:only,:rename)/alter-var-root/binding/let-shadowing over 12 names incl. munging near-collisions "
        "(a-b/a_b, x?/x__Q__, print/print_, class, str) in 2 namespaces; after every step every spelling of every defined name is compiled under 4 compile modes (direct linking / var indirection x "
        "inlining) from both namespaces; plus fixed scenarios (munge collisions, :rename refers, private access). distinct = distinct (history, step, spelling, mode); non-trivial = reads after at least "
        "one redefinition, root mutation or a second name in scope.",
        "shards": shards,
        "min_evaluations": 1500,
        "watchdog_s": 900 if q else 3400,
        "assumptions": ["alter-var-root on a direct-linked, non-redef, non-dynamic Var need not be visible to compiled references (documented 'Direct Linking'): both the last def value and the new root are accepted there"],
    }


def worker(spec, out):
    from vf import boot

    b = boot.init()
    rnd = random.Random(spec["seed"])
    K = b.kw.keyword
    rt = b.runtime
    ctr = itertools.count()
    ctxs = [b.ctx(b.opts(**m)) for m in MODES]

    class VarM:
        def __init__(self, ns, name, value, dynamic=False, redef=False, private=False):
            self.ns, self.name, self.root, self.lastdef, self.dynamic, self.redef, self.private = ns, name, value, value, dynamic, redef, private

    class World:
        def __init__(self):
            n = next(ctr)
            self.A = b.fresh_ns("vf.c10.a%d." % n)
            self.B = b.fresh_ns("vf.c10.b%d." % n)
            self.names = {"A": self.A.name, "B": self.B.name}
            self.vars = {}  # (nskey, name) -> VarM
            self.refers = {"A": {}, "B": {}}  # nskey -> local name -> (nskey, name)
            self.aliases = {"A": {}, "B": {}}  # nskey -> alias -> nskey
            self.altered = set()  # vars whose root was changed by alter-var-root since the last def

        def nsobj(self, k):
            return self.A if k == "A" else self.B

        def drop(self):
            b.drop_ns(self.A)
            b.drop_ns(self.B)

        def denotes(self, nskey, name):
            """the Var a bare symbol denotes in namespace nskey (interns first, then refers)"""
            if (nskey, name) in self.vars:
                return self.vars[(nskey, name)]
            tgt = self.refers[nskey].get(name)
            if tgt is not None:
                return self.vars.get(tgt)
            return None

    def run(world, nskey, text, mode):
        try:
            return ("val", b.eval_str(text, ns=world.nsobj(nskey), ctx=ctxs[mode]))
        except b.compiler.CompilerException as e:
            return ("compile-error", str(getattr(e, "msg", e))[:80])
        except Exception as e:
            return ("exc", type(e).__name__)

    def tok():
        return K("t%d" % next(ctr))

    def apply_step(w, st, hist):
        k = st[0]
        if k == "def":
            _, nskey, name, flags = st
            v = tok()
            meta = "".join("^:%s " % f for f in flags)
            r = run(w, nskey, f"(def {meta}{name} {v})", 0)
            if r[0] != "val":
                return ("def-failed", r)
            old = w.vars.get((nskey, name))
            vm = VarM(nskey, name, v, "dynamic" in flags, "redef" in flags, "private" in flags)
            w.vars[(nskey, name)] = vm
            w.altered.discard((nskey, name))
            # a local intern shadows a refer of the same name
        elif k == "alias":
            _, nskey, al, target = st
            # what (require '[other.ns :as al]) does for a namespace that is already loaded
            w.nsobj(nskey).add_alias(w.nsobj(target), b.sym.symbol(al))
            w.aliases[nskey][al] = target
        elif k == "refer":
            _, nskey, target, name, rename = st
            if (target, name) not in w.vars or w.vars[(target, name)].private:
                return None
            local = rename or name
            if (nskey, local) in w.vars:
                return None
            rn = f" :rename '{{{name} {rename}}}" if rename else ""
            r = run(w, nskey, f"(refer '{w.names[target]} :only '[{name}]{rn})", 0)
            if r[0] != "val":
                return ("refer-failed", r)
            w.refers[nskey][local] = (target, name)
        elif k == "alter":
            _, nskey, name = st
            vm = w.vars.get((nskey, name))
            if vm is None:
                return None
            v = tok()
            r = run(w, nskey, f"(alter-var-root #'{name} (constantly {v}))", 1)
            if r[0] != "val":
                return ("alter-failed", r)
            vm.root = v
            w.altered.add((nskey, name))
        return None

    def expected_values(w, vm, mode, via_var):
        """set of acceptable values for a read of Var vm"""
        indirect = MODES[mode].get("use_var_indirection", False)
        if via_var or indirect or vm.dynamic or vm.redef:
            return {vm.root}
        if (vm.ns, vm.name) in w.altered:
            return {vm.lastdef, vm.root}
        return {vm.lastdef}

    def check_reads(w, hist, nontrivial):
        """every spelling of every visible name, both namespaces, all modes"""
        for nskey in ("A", "B"):
            visible = {}
            for (vk, name), vm in w.vars.items():
                if vk == nskey:
                    visible[name] = vm
            for local, tgt in w.refers[nskey].items():
                if local not in visible and tgt in w.vars:
                    visible[local] = w.vars[tgt]
            for name, vm in visible.items():
                spellings = [("bare", name, False), ("var-deref", f"@#'{name}", True), ("resolve", f"(var-get (resolve '{name}))", True), ("ns-resolve", f"(var-get (ns-resolve *ns* '{name}))", True)]
                for al, tgt in w.aliases[nskey].items():
                    if tgt == vm.ns and not vm.private and (tgt, vm.name) in w.vars and w.vars[(tgt, vm.name)] is vm:
                        spellings.append(("alias", f"{al}/{vm.name}", False))
                if not vm.private or vm.ns == nskey:
                    spellings.append(("qualified", f"{w.names[vm.ns]}/{vm.name}", False))
                for sp, text, via_var in spellings:
                    for mode in range(len(MODES)):
                        got = run(w, nskey, text, mode)
                        out.ev(("read", len(hist), nskey, sp, mode, repr(hist)) if nontrivial else None)
                        out.count("spelling_" + sp)
                        want = expected_values(w, vm, mode, via_var)
                        case = {"kind": "history", "steps": [list(s) for s in hist]}
                        if got[0] != "val" or got[1] not in want:
                            other = [o for (k2, o2), o in w.vars.items() if o is not vm and got[0] == "val" and got[1] in (o.root, o.lastdef)]
                            if other:
                                o = other[0]
                                collide = b.runtime.munge(o.name) == b.runtime.munge(vm.name) if hasattr(b.runtime, "munge") else False
                                from basilisp.lang.util import munge

                                collide = munge(o.name) == munge(vm.name) and o.name != vm.name
                                key = "C10/injectivity/munge-collision" if (collide and not MODES[mode].get("use_var_indirection") and not via_var) else f"C10/denotation/{sp}-reads-another-var"
                                out.violation(key, {"spelling": text, "in_ns": nskey, "mode": MODES[mode], "expected_var": f"{vm.ns}/{vm.name}", "read_value_of": f"{o.ns}/{o.name}", "history": [list(s) for s in hist]}, case)
                            else:
                                out.violation(f"C10/read/{sp}-{'stale-or-wrong-value' if got[0] == 'val' else got[0]}", {"spelling": text, "in_ns": nskey, "mode": MODES[mode], "got": repr(got)[:120], "expected_one_of": sorted(str(x) for x in want), "history": [list(s) for s in hist]}, case)
                            return False
                # syntax-quote resolution: the symbol must be qualified with the namespace and own name of the Var it denotes
                got = run(w, nskey, f"`{name}", 0)
                out.count("syntax_quote_resolutions")
                want_sym = f"{w.names[vm.ns]}/{vm.name}"
                if got[0] != "val" or str(got[1]) != want_sym:
                    out.violation("C10/denotation/syntax-quote-resolves-to-another-var", {"template": "`" + name, "in_ns": nskey, "got": repr(got)[:100], "expected": want_sym, "history": [list(s) for s in hist]}, {"kind": "history", "steps": [list(s) for s in hist]})
                    return False
                # locals shadow Vars
                got = run(w, nskey, f"(let [{name} :local-value] {name})", rnd.randrange(len(MODES)))
                if got != ("val", K("local-value")):
                    out.violation("C10/shadowing/local-does-not-shadow-var", {"name": name, "got": repr(got)[:100], "history": [list(s) for s in hist]}, {"kind": "history", "steps": [list(s) for s in hist]})
                    return False
                # thread binding visible for dynamic Vars through every compiled spelling
                if vm.dynamic:
                    got = run(w, nskey, f"(binding [{name} :bound-value] [{name} @#'{name}])", rnd.randrange(len(MODES)))
                    if got[0] != "val" or list(got[1]) != [K("bound-value"), K("bound-value")]:
                        out.violation("C10/read/thread-binding-not-visible", {"name": name, "got": repr(got)[:100], "history": [list(s) for s in hist]}, {"kind": "history", "steps": [list(s) for s in hist]})
                        return False
            # private Vars of the other namespace are unreachable
            other = "B" if nskey == "A" else "A"
            for (vk, name), vm in w.vars.items():
                if vk == other and vm.private:
                    got = run(w, nskey, f"{w.names[other]}/{name}", 0)
                    out.count("private_access_checks")
                    if got[0] == "val":
                        out.violation("C10/privacy/private-var-readable-from-other-namespace", {"spelling": f"{w.names[other]}/{name}", "got": repr(got)[:80], "history": [list(s) for s in hist]}, {"kind": "history", "steps": [list(s) for s in hist]})
                        return False
        return True

    def run_history(steps):
        w = World()
        hist = []
        try:
            for i, st in enumerate(steps):
                hist.append(st)
                r = apply_step(w, st, hist)
                if r is not None:
                    out.violation(f"C10/step/{r[0]}", {"step": list(st), "result": repr(r[1])[:160], "history": [list(s) for s in hist]}, {"kind": "history", "steps": [list(s) for s in hist]})
                    return
                nontrivial = i >= 1
                if not check_reads(w, hist, nontrivial):
                    return
        finally:
            w.drop()

    def rand_history(maxlen):
        steps = []
        pool = rnd.sample(NAMES, 3)
        if rnd.random() < 0.4:
            pool[:2] = list(rnd.choice(COLLIDING))
        defined = set()
        for _ in range(rnd.randint(2, maxlen)):
            t = rnd.random()
            nskey = rnd.choice("AB")
            if t < 0.45 or not defined:
                name = rnd.choice(pool)
                flags = []
                if rnd.random() < 0.2 and not name.startswith("*"):
                    flags.append("redef")
                if rnd.random() < 0.2 or name.startswith("*"):
                    flags.append("dynamic")
                if rnd.random() < 0.12:
                    flags.append("private")
                prev = [s for s in steps if s[0] == "def" and s[1] == nskey and s[2] == name]
                if prev:
                    # a redefinition keeps the Var's flags, or marks a so far plain Var ^:redef / ^:dynamic (code compiled
                    # before the redefinition has already referred to it; reads compiled afterwards must follow the new marking)
                    gained = [f for f in flags if f in ("redef", "dynamic")] if rnd.random() < 0.5 else []
                    flags = list(prev[-1][3]) + [f for f in gained if f not in prev[-1][3]]
                steps.append(("def", nskey, name, tuple(flags)))
                defined.add((nskey, name))
            elif t < 0.55:
                steps.append(("alias", nskey, rnd.choice(["al", "other"]), "B" if nskey == "A" else "A"))
            elif t < 0.75:
                tgt = "B" if nskey == "A" else "A"
                cands = [n for (k2, n) in defined if k2 == tgt]
                if cands:
                    name = rnd.choice(cands)
                    rename = rnd.choice([None, None, "renamed-" + name.strip("*?<"), rnd.choice(pool)])
                    if rename == name:
                        rename = None
                    steps.append(("refer", nskey, tgt, name, rename))
            else:
                k2, name = rnd.choice(sorted(defined))
                steps.append(("alter", k2, name))
        return steps

    if "replay" in spec:
        c = spec["replay"]
        run_history([tuple(tuple(x) if isinstance(x, list) else x for x in s) for s in c["steps"]])
        return

    if spec["kind"] == "histories":
        for it in range(spec["n"]):
            steps = rand_history(spec["maxlen"])
            run_history(steps)
            if it < 2:
                out.sample({"history": [list(s) for s in steps]})
            out.maybe_flush()
    else:
        fixed = [
            [("def", "A", "a-b", ()), ("def", "A", "a_b", ())],
            [("def", "A", "x?", ()), ("def", "A", "x__Q__", ())],
            [("def", "A", "print", ()), ("def", "A", "print_", ())],
            [("def", "B", "v", ()), ("def", "B", "w", ()), ("refer", "A", "B", "v", "w")],
            [("def", "B", "v", ()), ("def", "B", "renamed", ()), ("refer", "A", "B", "v", "renamed"), ("alter", "B", "v")],
            [("def", "B", "v", ("private",)), ("def", "A", "v", ())],
            [("def", "A", "v", ()), ("alter", "A", "v"), ("def", "A", "v", ()), ("alter", "A", "v")],
            [("def", "A", "*star*", ("dynamic",)), ("alter", "A", "*star*"), ("alias", "B", "al", "A")],
            [("def", "B", "str", ()), ("alias", "A", "al", "B"), ("def", "A", "str", ())],
            [("def", "A", "v", ()), ("def", "A", "v", ("redef",)), ("alter", "A", "v")],
            [("def", "A", "v", ()), ("def", "A", "v", ("dynamic",)), ("alter", "A", "v")],
            [("def", "B", "v", ()), ("alias", "A", "al", "B"), ("def", "B", "v", ("redef",)), ("alter", "B", "v"), ("def", "B", "v", ("redef",)), ("alter", "B", "v")],
            [("def", "B", "w", ()), ("refer", "A", "B", "w", None), ("def", "B", "w", ("dynamic",)), ("alter", "B", "w")],
        ]
        for steps in fixed:
            run_history(steps)
        out.sample({"fixed_scenarios": len(fixed)})
