"""C19 — EDN, JSON and bencode codecs invert themselves and never mis-frame.

Monitors: write->read inversion with a harness structural equality (type-aware, NaN tolerant) for basilisp.edn (through the EDN
reader and through the Lisp reader) and basilisp.json (modulo the documented key/collection coercions); bencode encode->decode
identity on its domain and, for every split point of every generated message stream, the framing oracle: decode-all of the prefix
yields exactly the messages wholly contained in it, in order, plus the untouched remainder, and feeding remainder + suffix
continues to the full list (the nREPL accumulation loop).
"""
from __future__ import annotations

import datetime
import itertools
import math
import random
import uuid
from fractions import Fraction

STR_ALPHABET = ['"', "\\", "\n", "\t", "\x1f", "\x7f", "é", "中", "\U0001f40d", "\U000e0001", "a", "f", "0", " ", "/"]


def plan(tier, seed):
    q = tier == "quick"
    shards = []
    for i in range(3 if q else 8):
        shards.append({"kind": "edn", "n": 900 if q else 12000, "strings_part": i, "strings_parts": 3 if q else 8})
    for i in range(2 if q else 6):
        shards.append({"kind": "json", "n": 900 if q else 12000})
    for i in range(3 if q else 8):
        shards.append({"kind": "bencode", "streams": 100 if q else 1200})
    return {
        "level": "fault_enumeration",
        "rule": "EDN/JSON: random nested values of each codec's domain (scalars with boundary numbers, strings exhaustively to length 3 over a 15-character escape alphabet, keywords, symbols, lists, vectors, "
        "maps, sets, uuid, inst) written and read back; bencode: streams of 1-5 messages (ints incl. negative/zero, byte strings incl. framing look-alikes such as i1e / digits / colons / e, text values - strings with 1-4 byte UTF-8 characters, keywords, symbols - compared on their wire form, non-ASCII and keyword/symbol dict keys, empty "
        "collections, nesting to depth 6) with EVERY split point of every stream (exhaustive per stream) and the accumulate-and-continue loop. distinct = distinct written text / (stream, split); "
        "non-trivial = values with at least one collection or escape-relevant character, splits strictly inside the stream.",
        "shards": shards,
        "min_evaluations": 5000,
        "watchdog_s": 900 if q else 3400,
        "assumptions": ["corrupted (not merely truncated) bencode streams are outside the property", "bencode dict key order is canonical (sorted) on the wire", "JSON: keyword keys become strings unless :key-fn keyword; lists/sets become vectors"],
    }


def worker(spec, out):
    from vf import boot
    import importlib

    b = boot.init()
    rnd = random.Random(spec["seed"])
    K, S, V, L, M, SET = b.kw.keyword, b.sym.symbol, b.vec.vector, b.llist.list, b.lmap.map, b.lset.set
    from basilisp.lang import interfaces as I

    ns = b.fresh_ns("vf.c19.")
    b.eval_str("(require '[basilisp.edn :as edn] '[basilisp.json :as json] '[basilisp.contrib.bencode :as bc])", ns=ns)
    edn_w = b.eval_str("edn/write-string", ns=ns)
    edn_r = b.eval_str("edn/read-string", ns=ns)
    json_w = b.eval_str("json/write-str", ns=ns)
    json_r = b.eval_str("json/read-str", ns=ns)
    json_r_kw = b.eval_str("(fn [s] (json/read-str s :key-fn keyword))", ns=ns)
    bc_enc = b.eval_str("bc/encode", ns=ns)
    bc_dec = b.eval_str("(fn [d] (bc/decode d {}))", ns=ns)
    bc_dec_all = b.eval_str("bc/decode-all", ns=ns)
    lisp_read = b.core("read-string")
    pr = b.core("pr-str")

    def kind(v):
        if v is None:
            return "nil"
        for t, n in ((bool, "bool"), (int, "int"), (float, "float"), (Fraction, "ratio"), (str, "string"), (bytes, "bytes"), (b.kw.Keyword, "keyword"), (b.sym.Symbol, "symbol"), (uuid.UUID, "uuid"),
                     (datetime.datetime, "inst"), (I.IPersistentVector, "vector"), (I.IPersistentMap, "map"), (I.IPersistentSet, "set")):
            if isinstance(v, t):
                return n
        if isinstance(v, (I.IPersistentList, I.ISeq)):
            return "list"
        return type(v).__name__

    def diff(a, c, typed=True):
        ka, kc = kind(a), kind(c)
        if typed and ka != kc:
            return (ka, "type")
        if ka == "float" and kc == "float":
            if a != a or c != c:
                return None if (a != a and c != c) else (ka, "value")
            return None if (a == c and math.copysign(1, a) == math.copysign(1, c)) else (ka, "value")
        if ka in ("vector", "list"):
            la, lc = list(a), list(c)
            if len(la) != len(lc):
                return (ka, "value")
            for x, y in zip(la, lc):
                d = diff(x, y, typed)
                if d:
                    return d
            return None
        if ka == "set":
            if len(a) != len(c):
                return (ka, "value")
            for x in a:
                if x not in c:
                    return (kind(x), "value")
            return None
        if ka == "map":
            if len(a) != len(c):
                return (ka, "value")
            for k, v in a.items():
                if not c.contains(k):
                    return (kind(k), "value")
                d = diff(v, c.val_at(k), typed)
                if d:
                    return d
            return None
        return None if a == c else (ka, "value")

    NAMES = ["a", "b", "foo", "a-b", "x?", "k1", "é"]

    def rstr():
        return "".join(rnd.choice(STR_ALPHABET + list("abcxyz 019")) for _ in range(rnd.randint(0, 6)))

    def rscalar(codec, key=False):
        t = rnd.random()
        if t < 0.08 and not key:
            return None
        if t < 0.16 and not key:
            return rnd.random() < 0.5
        if t < 0.36:
            return rnd.choice([0, 1, -1, 7, 2**31, -(2**63), 10**25, rnd.getrandbits(60)])
        if t < 0.5 and not key:
            return rnd.choice([0.0, -0.0, 1.5, -2.25, 1e22, 1e-7, 123456.789, 5e-324, 1.7976931348623157e308, rnd.uniform(-1e6, 1e6)])
        if t < 0.75 or codec == "json":
            return rstr()
        if t < 0.88:
            return K(rnd.choice(NAMES), ns=rnd.choice([None, None, "ns.b"]))
        if t < 0.94:
            return S(rnd.choice(NAMES), ns=rnd.choice([None, "ns.b"]))
        if t < 0.97:
            return uuid.UUID(int=rnd.getrandbits(128))
        return datetime.datetime(rnd.randint(1971, 2100), rnd.randint(1, 12), rnd.randint(1, 28), rnd.randint(0, 23), rnd.randint(0, 59), rnd.randint(0, 59), rnd.choice([0, 123000]), tzinfo=datetime.timezone.utc)

    def rvalue(codec, d, key=False):
        t = rnd.random()
        if d <= 0 or t < 0.4 or key:
            return rscalar(codec, key)
        n = rnd.randint(0, 4)
        if t < 0.62:
            return V([rvalue(codec, d - 1) for _ in range(n)])
        if t < 0.72 and codec == "edn":
            return L([rvalue(codec, d - 1) for _ in range(n)])
        if t < 0.92:
            if codec == "json":
                return M({rnd.choice([rstr(), K(rnd.choice(NAMES))]) if rnd.random() < 0.7 else rstr(): rvalue(codec, d - 1) for _ in range(n)})
            return M({rvalue(codec, 0, key=True): rvalue(codec, d - 1) for _ in range(n)})
        if codec == "edn":
            return SET([rvalue(codec, 0, key=True) for _ in range(n)])
        return V([rvalue(codec, d - 1) for _ in range(n)])

    def check_edn(v, desc):
        case = {"kind": "edn", "desc": desc}
        try:
            s = edn_w(v)
        except Exception as e:
            out.ev(None)
            out.violation(f"C19/edn/write-raises-{type(e).__name__}/{kind(v)}", {"value": pr(v)[:200], "exc": repr(e)[:200]}, case)
            return
        nontrivial = any(ch in s for ch in '[({#"\\')
        out.ev(("edn", s) if nontrivial else None)
        for rname, rd in (("edn-reader", edn_r), ("lisp-reader", lisp_read)):
            try:
                back = rd(s)
            except Exception as e:
                out.violation(f"C19/edn/{rname}/read-error-{type(e).__name__}/{culprit(v, rd)}", {"written": s[:300], "exc": str(e)[:200]}, case)
                continue
            d = diff(v, back)
            if d:
                out.violation(f"C19/edn/{rname}/{d[0]}-{d[1]}", {"written": s[:300], "original": pr(v)[:200], "read_back": pr(back)[:200]}, case)

    def leaves(v, acc):
        k = kind(v)
        if k in ("vector", "list", "set"):
            for x in v:
                leaves(x, acc)
        elif k == "map":
            for a, c in v.items():
                leaves(a, acc)
                leaves(c, acc)
        else:
            acc.append(v)
        return acc

    def culprit(v, rd):
        for lf in leaves(v, []):
            try:
                rd(edn_w(lf))
            except Exception:
                return kind(lf)
        return kind(v)

    def json_expected(v):
        """what JSON must read back: keyword keys -> strings, lists/sets -> vectors, keyword values -> strings"""
        k = kind(v)
        if k == "keyword":
            return (v.ns + "/" + v.name) if v.ns else v.name
        if k in ("vector", "list", "set"):
            return V([json_expected(x) for x in v])
        if k == "map":
            return M({json_expected(a): json_expected(c) for a, c in v.items()})
        return v

    def check_json(v, desc):
        case = {"kind": "json", "desc": desc}
        try:
            s = json_w(v)
        except Exception as e:
            out.ev(None)
            out.violation(f"C19/json/write-raises-{type(e).__name__}/{kind(v)}", {"value": pr(v)[:200], "exc": repr(e)[:200]}, case)
            return
        out.ev(("json", s) if any(ch in s for ch in '[{"\\') else None)
        try:
            back = json_r(s)
        except Exception as e:
            out.violation(f"C19/json/read-error-{type(e).__name__}", {"written": s[:300], "exc": str(e)[:200]}, case)
            return
        want = json_expected(v)
        d = diff(want, back)
        if d:
            # ints that do not fit a double come back as ints in Python's json; floats that are integral keep being floats
            out.violation(f"C19/json/{d[0]}-{d[1]}", {"written": s[:300], "expected": pr(want)[:200], "read_back": pr(back)[:200]}, case)
            return
        try:
            backk = json_r_kw(s)
            # with :key-fn keyword every map key is a keyword named like the string key
            def keys_ok(w, g):
                if kind(w) == "map":
                    if len(w) != len(g):
                        return False
                    for a, c in w.items():
                        kk = K(a) if isinstance(a, str) else a
                        if not g.contains(kk):
                            return False
                        if not keys_ok(c, g.val_at(kk)):
                            return False
                    return True
                if kind(w) == "vector":
                    return len(w) == len(g) and all(keys_ok(x, y) for x, y in zip(w, g))
                return diff(w, g) is None
            simple_keys = all(isinstance(a, str) and a and "/" not in a for a in all_keys(want))
            if simple_keys and not keys_ok(want, backk):
                out.violation("C19/json/key-fn-keyword-differs", {"written": s[:300], "read_back": pr(backk)[:200]}, case)
        except Exception as e:
            out.violation(f"C19/json/key-fn-read-error-{type(e).__name__}", {"written": s[:300], "exc": str(e)[:200]}, case)

    def all_keys(v, acc=None):
        acc = [] if acc is None else acc
        if kind(v) == "map":
            for a, c in v.items():
                acc.append(a)
                all_keys(c, acc)
        elif kind(v) == "vector":
            for x in v:
                all_keys(x, acc)
        return acc

    # ---- bencode ---------------------------------------------------------------------------------------------------------------
    TRICKY = [b"", b"i1e", b"e", b"l", b"d", b"3:abc", b"0:", b"12", b":", b"i", b"-", b"le", b"de", b"\x00\xff", b"hello world", b"1:", b"i-0e", b"99999999999:x"]

    def rbval(d):
        t = rnd.random()
        if d <= 0 or t < 0.45:
            if rnd.random() < 0.5:
                return rnd.choice([0, 1, -1, 42, -7, 10**20, -(10**12)])
            t2 = rnd.random()
            if t2 < 0.3:
                # text values: strings are UTF-8 encoded on the wire (the length prefix counts bytes, not characters);
                # keywords and symbols travel as "ns/name" strings
                s_ = rnd.choice(BSTRS) if rnd.random() < 0.7 else "".join(rnd.choice("a:e1\u00e9\u4e2d\U0001F600 ") for _ in range(rnd.randint(0, 6)))
                t3 = rnd.random()
                if t3 < 0.6 or not s_.strip() or any(ch in s_ for ch in " :/"):
                    return s_
                nsp = rnd.choice([None, "n", "n\u00e9"])
                return b.kw.keyword(s_, ns=nsp) if t3 < 0.8 else b.sym.symbol(s_, ns=nsp)
            return rnd.choice(TRICKY) if t2 < 0.7 else bytes(rnd.getrandbits(8) for _ in range(rnd.randint(0, 12)))
        n = rnd.randint(0, 3)
        if t < 0.75:
            return V([rbval(d - 1) for _ in range(n)])
        # the encoder takes string/keyword/symbol keys (its documented domain); they are byte strings on the wire and after decoding
        keys = {}
        for _ in range(n):
            k = rnd.choice([t.decode("ascii") for t in TRICKY[2:12]] + ["k%d" % i for i in range(4)] + ["\u00e9", "k\u4e2d", "\U0001F600x"])
            if rnd.random() < 0.25 and not any(ch in k for ch in " :/"):
                k = b.kw.keyword(k, ns=rnd.choice([None, "n"])) if rnd.random() < 0.7 else b.sym.symbol(k)
            keys.setdefault(wire(k), k)     # keys that coincide on the wire would be one entry after decoding
        return M({k: rbval(d - 1) for k in keys.values()})

    BSTRS = ["", "a", "\u00e9", "\u4e2d", "\U0001F600", "a\u00e9", "\u00e9a", "3:\u00e9", "i1e", "\u00e9\u00e9\u00e9", "na\u00efve caf\u00e9", "\x00", "\x7f\x80"]

    def wire(x):
        """bytes a text value becomes on the wire"""
        if isinstance(x, (b.kw.Keyword, b.sym.Symbol)):
            return ((x.ns + "/") if x.ns else "").encode("utf-8") + x.name.encode("utf-8")
        return x.encode("utf-8")

    def bdiff(a, c):
        if isinstance(a, bool) or isinstance(c, bool):
            return a is not c
        if isinstance(a, int) and isinstance(c, int):
            return a != c
        if isinstance(a, bytes) and isinstance(c, bytes):
            return a != c
        if isinstance(a, (str, b.kw.Keyword, b.sym.Symbol)) and not isinstance(a, bytes):
            return not isinstance(c, bytes) or wire(a) != c
        if kind(a) == "vector" and kind(c) == "vector":
            return len(a) != len(c) or any(bdiff(x, y) for x, y in zip(a, c))
        if kind(a) == "map" and kind(c) == "map":
            if len(a) != len(c):
                return True
            for k, v in a.items():
                kb = wire(k) if not isinstance(k, bytes) else k
                if not c.contains(kb) or bdiff(v, c.val_at(kb)):
                    return True
            return False
        return True

    def check_bencode_stream(msgs, desc):
        case = {"kind": "bencode", "desc": desc}
        encs = []
        for m in msgs:
            try:
                e = bc_enc(m)
            except Exception as ex:
                out.violation(f"C19/bencode/encode-raises-{type(ex).__name__}", {"message": pr(m)[:200]}, case)
                return
            # encode -> decode identity
            r = bc_dec(e)
            out.ev(("benc", e))
            if bdiff(m, r[0]) or r[1] is not None:
                out.violation("C19/bencode/roundtrip-differs", {"message": pr(m)[:200], "encoded": repr(e)[:200], "decoded": pr(r[0])[:200], "rest": repr(r[1])[:60]}, case)
                return
            encs.append(e)
        stream = b"".join(encs)
        bounds = list(itertools.accumulate(len(e) for e in encs))
        for k in range(len(stream) + 1):
            nt = 0 < k < len(stream)
            out.ev(("split", stream, k) if nt else None)
            out.count("splits")
            try:
                items, rest = bc_dec_all(stream[:k])
            except Exception as ex:
                out.violation(f"C19/bencode/decode-all-raises-{type(ex).__name__}", {"stream": repr(stream)[:200], "split": k}, case)
                return
            ncomplete = sum(1 for bnd in bounds if bnd <= k)
            want_rest = stream[(bounds[ncomplete - 1] if ncomplete else 0):k]
            items = list(items)
            bad = None
            if len(items) != ncomplete:
                bad = "partial-message-decoded-as-complete" if len(items) > ncomplete else "complete-message-not-decoded"
            elif any(bdiff(m, it) for m, it in zip(msgs, items)):
                bad = "decoded-messages-differ"
            elif (rest or b"") != want_rest:
                bad = "remainder-not-untouched"
            if bad:
                out.violation(f"C19/bencode/framing/{bad}", {"stream": repr(stream)[:300], "split": k, "boundaries": bounds, "decoded_count": len(items), "complete_in_prefix": ncomplete, "rest": repr(rest)[:80], "expected_rest": repr(want_rest)[:80]}, case)
                return
            # accumulate and continue (the nREPL loop): remainder + suffix decodes to the remaining messages
            if nt and k % 3 == 0:
                items2, rest2 = bc_dec_all((rest or b"") + stream[k:])
                items2 = list(items2)
                if len(items) + len(items2) != len(msgs) or rest2 is not None or any(bdiff(m, it) for m, it in zip(msgs[len(items):], items2)):
                    out.violation("C19/bencode/framing/continuation-differs", {"stream": repr(stream)[:300], "split": k, "first": len(items), "second": len(items2), "rest2": repr(rest2)[:60]}, case)
                    return

    if "replay" in spec:
        c = spec["replay"]
        st = random.Random(c.get("rseed", 0))
        rnd.setstate(st.getstate())
        if c["kind"] == "edn":
            check_edn(rvalue("edn", 4) if "rseed" in c else c.get("str", ""), c["desc"])
        elif c["kind"] == "json":
            check_json(rvalue("json", 4) if "rseed" in c else c.get("str", ""), c["desc"])
        else:
            check_bencode_stream([rbval(rnd.choice([0, 1, 2, 6])) for _ in range(rnd.randint(1, 5))], c["desc"])
        return

    kind_ = spec["kind"]
    if kind_ == "edn":
        allstr = [""] + ["".join(t) for n in (1, 2, 3) for t in itertools.product(STR_ALPHABET, repeat=n)]
        for i in range(spec["strings_part"], len(allstr), spec["strings_parts"]):
            s = allstr[i]
            case = {"kind": "edn", "desc": "string", "str": s}
            check_edn(s, "string")
        out.setx("edn_strings_enumerated", len(allstr))
        for it in range(spec["n"]):
            rs = rnd.getrandbits(48)
            st = rnd.getstate()
            rnd.seed(rs)
            v = rvalue("edn", 4)
            rnd.setstate(st)
            check_edn(v, "rvalue(seed=%d)" % rs)
            if it < 2:
                out.sample({"edn": edn_w(v)[:200]})
            out.maybe_flush()
    elif kind_ == "json":
        for it in range(spec["n"]):
            rs = rnd.getrandbits(48)
            st = rnd.getstate()
            rnd.seed(rs)
            v = rvalue("json", 4)
            rnd.setstate(st)
            check_json(v, "rvalue(seed=%d)" % rs)
            if it < 2:
                try:
                    out.sample({"json": json_w(v)[:200]})
                except Exception:
                    pass
            out.maybe_flush()
    else:
        for it in range(spec["streams"]):
            rs = rnd.getrandbits(48)
            st = rnd.getstate()
            rnd.seed(rs)
            msgs = [rbval(rnd.choice([0, 1, 2, 6])) for _ in range(rnd.randint(1, 5))]
            rnd.setstate(st)
            check_bencode_stream(msgs, "stream(seed=%d)" % rs)
            if it < 2:
                out.sample({"bencode_stream": repr(b"".join(bc_enc(m) for m in msgs))[:200], "messages": len(msgs)})
            out.maybe_flush()
