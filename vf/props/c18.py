"""C18 — multimethod dispatch depends only on the current methods, preferences and hierarchy.

Monitor: after every step of a history of add/remove/remove-all/prefer/derive/underive/call, the real multimethod is called on
every dispatch value of the universe and compared with a from-scratch reference resolution computed from the current method
table, preference table and parent relation only. Independence oracles: a fresh multimethod rebuilt from the final state in another
insertion order (and without warm-up calls) must dispatch identically; the same histories run under several hash seeds.
Hierarchy invariant after every derive/underive: ancestors = transitive closure of parents, descendants = its inverse, isa? agrees.
"""
from __future__ import annotations

import itertools
import random


def plan(tier, seed):
    q = tier == "quick"
    hs = [0, 1, 2] if q else [0, 1, 2, 3, 4, 5]
    shards = []
    for h in hs:
        shards.append({"kind": "exh", "length": 3 if q else 4, "hashseed": h, "stride": 7 if q else 5, "part": h % 7})
        for i in range(1 if q else 3):
            shards.append({"kind": "random", "n": 250 if q else 4000, "maxlen": 40, "hashseed": h})
    shards.append({"kind": "stress", "n": 30 if q else 400, "hashseed": 0})
    return {
        "level": "exploration",
        "rule": "histories of add/remove/remove-all/prefer/derive/underive/call over a universe of 5 namespaced keywords and 3 Python classes (real subclassing), global and explicit hierarchies: a systematic "
        "1/7 sample of all histories of length 3 (thorough: 1/5 of length 4) over a reduced op alphabet, random histories to length 40, 3 (thorough 6) hash seeds, with a call to every dispatch value after "
        "every step; threads calling while another redefines (result must match the table before or after the concurrent step). distinct = distinct (history, hash seed); non-trivial = histories with at "
        "least two methods or a derive.",
        "shards": shards,
        "hashseeds": hs,
        "min_evaluations": 1500,
        "watchdog_s": 900 if q else 3400,
        "assumptions": ["where direct and inherited preference semantics differ, both answers are accepted", "ambiguity must raise (class not prescribed beyond being an exception); no-method raises any exception"],
    }


class RefState:
    def __init__(self, classes):
        self.methods = set()
        self.prefers = set()  # (a, b): a preferred over b
        self.parents = {}  # child -> set(parents)
        self.classes = classes  # name -> list of superclass names (including itself)

    def copy(self):
        r = RefState(self.classes)
        r.methods, r.prefers = set(self.methods), set(self.prefers)
        r.parents = {k: set(v) for k, v in self.parents.items()}
        return r

    def ancestors(self, x):
        out, todo = set(), list(self.parents.get(x, ()))
        while todo:
            p = todo.pop()
            if p not in out:
                out.add(p)
                todo.extend(self.parents.get(p, ()))
        return out

    def isa(self, x, y):
        if x == y:
            return True
        if x in self.classes and y in self.classes:
            return y in self.classes[x]
        if x in self.classes:
            # a class is also everything its superclasses were derived to be
            return any(y in self.ancestors(c) or y in self.parents.get(c, ()) for c in self.classes[x])
        return y in self.ancestors(x)

    def pref(self, a, b, inherited):
        if (a, b) in self.prefers:
            return True
        if inherited:
            for p in self.parents.get(b, ()):
                if self.pref(a, p, True):
                    return True
            for p in self.parents.get(a, ()):
                if self.pref(p, b, True):
                    return True
        return False

    def resolve(self, v, inherited=False):
        cands = [m for m in self.methods if m != "default" and self.isa(v, m)]
        if not cands:
            return ("method", "default") if "default" in self.methods else ("no-method",)
        best = [x for x in cands if all(x == y or self.pref(x, y, inherited) or self.isa(x, y) for y in cands)]
        if len(best) == 1:
            return ("method", best[0])
        if len(best) > 1:
            # mutual domination: a preference that contradicts the hierarchy (b preferred over d although d isa b).
            # The property does not say which wins: any of the mutually dominating methods, or an ambiguity error
            return ("any-of", tuple(sorted(best)))
        return ("ambiguous",)


def worker(spec, out):
    from vf import boot

    b = boot.init()
    rnd = random.Random(spec["seed"])
    C = b.core
    K = b.kw.keyword
    from basilisp.lang import multifn as mfmod

    class Base:
        pass

    class Mid(Base):
        pass

    class Leaf(Mid):
        pass

    KW = {n: K(n, ns="u") for n in "abcde"}
    CLS = {"Base": Base, "Mid": Mid, "Leaf": Leaf}
    CLASSES = {"Base": ["Base"], "Mid": ["Mid", "Base"], "Leaf": ["Leaf", "Mid", "Base"]}
    OBJ = dict(KW)
    OBJ.update(CLS)
    OBJ["default"] = K("default")
    OBJ["other"] = K("other", ns="u")
    UNIVERSE = list("abcde") + ["Base", "Mid", "Leaf", "other"]
    ns = b.fresh_ns("vf.c18.")
    b.eval_str("(def ^:redef h (make-hierarchy))", ns=ns)
    HV = ns.find(b.sym.symbol("h"))
    GH = b.var("basilisp.core", "global-hierarchy")
    make_h = C("make-hierarchy")
    derive, underive = C("derive"), C("underive")
    isa, parents, ancestors, descendants = C("isa?"), C("parents"), C("ancestors"), C("descendants")
    ctr = itertools.count()

    def new_mf(global_h):
        name = b.sym.symbol("mf%d" % next(ctr))
        return mfmod.MultiFunction(name, lambda v: v, K("default"), None if global_h else HV)

    def tagfn(tag):
        return lambda v: ("ran", tag)

    def call(mf, v):
        try:
            r = mf(OBJ[v])
            return ("method", r[1]) if isinstance(r, tuple) and r[0] == "ran" else ("weird", repr(r)[:40])
        except mfmod.runtime.RuntimeException:
            return ("ambiguous",)
        except NotImplementedError:
            return ("no-method",)
        except Exception as e:
            return ("exc", type(e).__name__)

    def hier_value(global_h):
        return GH.value if global_h else HV.value

    def check_hierarchy(ref, global_h, hist, case):
        hv = hier_value(global_h)
        names = list("abcde")
        for x in names:
            out.count("hierarchy_checks")
            pa = {k for k in names if OBJ[k] in (parents(hv, OBJ[x]) or ())}
            an = {k for k in names if OBJ[k] in (ancestors(hv, OBJ[x]) or ())}
            de = {k for k in names if OBJ[k] in (descendants(hv, OBJ[x]) or ())}
            want_pa = set(ref.parents.get(x, ()))
            want_an = ref.ancestors(x)
            want_de = {k for k in names if x in ref.ancestors(k)}
            if pa != want_pa or an != want_an or de != want_de:
                out.violation("C18/hierarchy/" + ("parents" if pa != want_pa else "ancestors" if an != want_an else "descendants") + "-inconsistent",
                              {"tag": x, "parents": sorted(pa), "ancestors": sorted(an), "descendants": sorted(de), "expected": [sorted(want_pa), sorted(want_an), sorted(want_de)], "history": hist}, case)
                return False
            for y in names:
                if bool(isa(hv, OBJ[x], OBJ[y])) != ref.isa(x, y):
                    out.violation("C18/hierarchy/isa-disagrees-with-ancestors", {"x": x, "y": y, "isa?": bool(isa(hv, OBJ[x], OBJ[y])), "expected": ref.isa(x, y), "history": hist}, case)
                    return False
        return True

    def reset_hierarchies():
        HV.bind_root(make_h())
        GH.bind_root(make_h())

    def apply_step(mf, ref, st, global_h):
        """returns 'ok' | 'rejected' (operation legitimately refused, state unchanged) ; mutates ref"""
        op = st[0]
        if op == "add":
            mf.add_method(OBJ[st[1]], tagfn(st[1]))
            ref.methods.add(st[1])
        elif op == "remove":
            C("remove-method")(mf, OBJ[st[1]])
            ref.methods.discard(st[1])
        elif op == "remove-all":
            C("remove-all-methods")(mf)
            ref.methods.clear()
        elif op == "prefer":
            a, c = st[1], st[2]
            if (c, a) in ref.prefers:
                try:
                    C("prefer-method")(mf, OBJ[a], OBJ[c])
                    return "should-have-raised"
                except Exception:
                    return "rejected"
            C("prefer-method")(mf, OBJ[a], OBJ[c])
            ref.prefers.add((a, c))
        elif op == "derive":
            c, p = st[1], st[2]
            cyc = c in ref.ancestors(p) or c == p
            try:
                if global_h:
                    derive(OBJ[c], OBJ[p])
                else:
                    HV.bind_root(derive(HV.value, OBJ[c], OBJ[p]))
            except Exception:
                if cyc or p in ref.ancestors(c):
                    return "rejected"
                raise
            if cyc:
                return "cycle-accepted"
            ref.parents.setdefault(c, set()).add(p)
        elif op == "underive":
            c, p = st[1], st[2]
            if global_h:
                underive(OBJ[c], OBJ[p])
            else:
                HV.bind_root(underive(HV.value, OBJ[c], OBJ[p]))
            if c in ref.parents:
                ref.parents[c].discard(p)
        elif op == "call":
            call(mf, st[1])
        return "ok"

    def run_history(steps, global_h, label):
        reset_hierarchies()
        mf = new_mf(global_h)
        ref = RefState(CLASSES)
        hist = []
        nt = sum(1 for s in steps if s[0] in ("add", "derive")) >= 2
        out.ev((label, global_h, repr(steps)) if nt else None)
        case = {"kind": "history", "steps": [list(s) for s in steps], "global": global_h}
        for st in steps:
            hist.append(list(st))
            try:
                r = apply_step(mf, ref, st, global_h)
            except Exception as e:
                out.violation(f"C18/{st[0]}/raises-{type(e).__name__}", {"history": hist, "exc": repr(e)[:200]}, case)
                return
            if r == "should-have-raised":
                out.violation("C18/prefer/conflicting-preference-accepted", {"history": hist}, case)
                return
            if r == "cycle-accepted":
                out.violation("C18/hierarchy/cyclic-derive-accepted", {"history": hist}, case)
                return
            if st[0] in ("derive", "underive"):
                if not check_hierarchy(ref, global_h, hist, case):
                    return
            for v in UNIVERSE:
                got = call(mf, v)
                want = set()
                for w in (ref.resolve(v, False), ref.resolve(v, True)):
                    if w[0] == "any-of":
                        want.add(("ambiguous",))
                        want.update(("method", x) for x in w[1])
                    else:
                        want.add(w)
                out.count("dispatch_checks")
                if got not in want:
                    kind = "ambiguity-not-detected" if ("ambiguous",) in want and len(want) == 1 else ("spurious-ambiguity" if got == ("ambiguous",) else ("wrong-method" if got[0] == "method" else got[0]))
                    out.violation(f"C18/dispatch/{kind}", {"history": hist, "dispatch_value": v, "got": got, "expected": sorted(want), "methods": sorted(ref.methods), "prefers": sorted(ref.prefers),
                                                           "parents": {k: sorted(x) for k, x in ref.parents.items() if x}}, case)
                    return
        # independence: a fresh multimethod with the same final tables, built in another order and never called before
        mf2 = new_mf(global_h)
        for m in sorted(ref.methods, reverse=True):
            mf2.add_method(OBJ[m], tagfn(m))
        for a, c in sorted(ref.prefers, reverse=True):
            try:
                mf2.prefer_method(OBJ[a], OBJ[c])
            except Exception:
                pass
        for v in UNIVERSE:
            g1, g2 = call(mf, v), call(mf2, v)
            out.count("independence_checks")
            if g1 != g2:
                out.violation("C18/dispatch/depends-on-insertion-order-or-cache", {"history": hist, "dispatch_value": v, "original": g1, "rebuilt_in_other_order": g2}, case)
                return

    KEYS = ["a", "b", "c", "Base", "Leaf"]

    def op_alphabet():
        ops = [("add", k) for k in ["a", "b", "c", "default", "Base", "Mid"]]
        ops += [("remove", "a"), ("remove-all",)]
        ops += [("prefer", "a", "b"), ("prefer", "b", "a"), ("prefer", "Base", "c")]
        ops += [("derive", "c", "a"), ("derive", "c", "b"), ("derive", "d", "c"), ("derive", "a", "d"), ("underive", "c", "a")]
        ops += [("call", "d")]
        return ops

    def rand_step():
        t = rnd.random()
        names = list("abcde")
        allk = names + ["Base", "Mid", "Leaf", "default"]
        if t < 0.3:
            return ("add", rnd.choice(allk))
        if t < 0.38:
            return ("remove", rnd.choice(allk))
        if t < 0.4:
            return ("remove-all",)
        if t < 0.55:
            a, c = rnd.sample(names + ["Base", "Mid", "Leaf"], 2)
            return ("prefer", a, c)
        if t < 0.8:
            c, p = rnd.sample(names, 2)
            return ("derive", c, p)
        if t < 0.9:
            c, p = rnd.sample(names, 2)
            return ("underive", c, p)
        return ("call", rnd.choice(UNIVERSE))

    if "replay" in spec:
        c = spec["replay"]
        if c["kind"] == "history":
            run_history([tuple(s) for s in c["steps"]], c["global"], "replay")
        return

    kind = spec["kind"]
    if kind == "exh":
        ops = op_alphabet()
        n = 0
        for steps in itertools.product(ops, repeat=spec["length"]):
            n += 1
            if n % spec["stride"] != spec["part"] % spec["stride"]:
                continue
            run_history(list(steps), (n // spec["stride"]) % 4 == 0, "exh")
            out.maybe_flush()
        out.setx("exhaustive_histories_space", n)
        out.sample({"op_alphabet": [list(o) for o in ops]})
        # the dominance scenario: r derives from p and q; x derives from p, q and r; methods p, q, r -> :r must win
        run_history([("add", "a"), ("add", "b"), ("add", "c"), ("derive", "c", "a"), ("derive", "c", "b"), ("derive", "d", "a"), ("derive", "d", "b"), ("derive", "d", "c")], False, "dominance")
    elif kind == "random":
        for it in range(spec["n"]):
            steps = [rand_step() for _ in range(rnd.randint(2, spec["maxlen"]))]
            run_history(steps, it % 3 == 0, "random")
            if it < 2:
                out.sample({"history": [list(s) for s in steps][:15]})
            out.maybe_flush()
    elif kind == "stress":
        import sys
        import threading

        old = sys.getswitchinterval()
        sys.setswitchinterval(1e-6)
        try:
            for it in range(spec["n"]):
                reset_hierarchies()
                mf = new_mf(False)
                mf.add_method(OBJ["a"], tagfn("a"))
                HV.bind_root(derive(HV.value, OBJ["c"], OBJ["a"]))
                stop = threading.Event()
                bad = []

                def caller():
                    while not stop.is_set():
                        g = call(mf, "c")
                        # before the concurrent step: a ; after (method c added / removed again): c or a
                        if g not in (("method", "a"), ("method", "c")):
                            bad.append(g)

                ths = [threading.Thread(target=caller) for _ in range(3)]
                [t.start() for t in ths]
                for _ in range(30):
                    mf.add_method(OBJ["c"], tagfn("c"))
                    mf.remove_method(OBJ["c"])
                stop.set()
                [t.join(20) for t in ths]
                out.ev(("stress", it))
                if bad:
                    out.violation("C18/dispatch/concurrent-call-saw-neither-before-nor-after", {"observed": [list(x) for x in bad[:5]]}, {"kind": "stress"})
                    break
        finally:
            sys.setswitchinterval(old)
