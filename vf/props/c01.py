"""C01 — compiled programs compute the values their source denotes.

Differential reference monitor: generated programs of the special-form fragment are compiled and run by the real
compiler (6 syntactic contexts x 8 code-generation option sets, special forms and user-facing macros) and the
result value / exception class is compared with an independent reference evaluator.
"""
from __future__ import annotations

import itertools
import random

from vf import progs


def plan(tier, seed):
    q = tier == "quick"
    shards = []
    nex = 4 if q else 8
    for i in range(nex):
        shards.append({"kind": "exh", "max_nodes": 4 if q else 5, "part": i, "parts": nex})
    nr = 8 if q else 16
    for i in range(nr):
        shards.append({"kind": "rand", "n": 450 if q else 9000})
    shards.append({"kind": "module", "n": 25 if q else 300})
    shards.append({"kind": "munge"})
    return {
        "level": "exploration",
        "rule": "programs of the special-form fragment: (a) exhaustive: every program with <= 4 (thorough 5) nodes over {nil,false,0,x,y} x {vec,not,call,let,try,do,if}, "
        "every sub-expression traced; (b) random typed programs up to depth 5 (if/do/let/fn multi-arity/call/loop+recur with escaping closures/letfn/try-catch-finally/throw/def/"
        "collection literals/interop calls) with Python-unsafe and near-colliding names; each embedded in syntactic contexts (top, fn body, statement, call argument, let init, if test) "
        "and compiled under the 8 combinations of use-var-indirection/inline-functions/generate-auto-inlines (Latin-square rotation), special forms and macros; a sample also through the "
        "importer's compile_module path. distinct = distinct (program text, context, option set); non-trivial = program has >= 2 nodes.",
        "shards": shards,
        "min_evaluations": 3000,
        "watchdog_s": 1200 if q else 3400,
        "assumptions": ["vf/progs.py Ref evaluator is the semantics of the fragment", "results containing functions are compared up to :fn"],
    }


KNOWN_KEY = {
    "cells": "C01/closure/late-binding-loop-local",
    "hoist": "C01/order/hoisted-dependency",
    "cells+hoist": "C01/closure+order/late-binding-and-hoisting",
}


def diffclass(obs, exp):
    a = obs[0][0]
    e = exp[0][0]
    return f"{e}-expected-{a}-observed"


def check_program(R, out, prog, ctx, optset, macros, case_extra, what="result", keyprefix="C01"):
    from vf import progrun

    eprog = progs.embed(prog, ctx)
    text = progs.render(eprog, macros=macros)
    case = {"text": text, "optset": optset, "ctx": ctx, "macros": macros}
    case.update(case_extra)
    observed = R.run_text(text, optset, fresh=("(def " in text))
    out.ev((text, optset) if progs.size(prog) >= 2 else None)
    out.count("ctx_" + ctx)
    out.count("opt_%d" % optset)
    preds = progrun.predictions(eprog)
    if preds["faithful"] is None:
        out.count("reference_step_limit")
        return None
    if observed[0][0] == "timeout":
        # the reference terminates within its step bound; a wall-clock timeout counts only if it reproduces with a doubled limit
        R.time_limit *= 2
        try:
            again = R.run_text(text, optset, fresh=True)
        finally:
            R.time_limit /= 2
        diverging = [m for m in ("cells", "hoist", "cells+hoist") if preds.get(m) == "diverges"]
        if again[0][0] == "timeout" and diverging:
            out.violation(KNOWN_KEY[diverging[0]].replace("C01", keyprefix), {"text": text, "expected": repr(preds["faithful"])[:400], "observed": "no result within the wall-clock bounds", "explained_by_defect_model": diverging[0] + " (the model recurses without bound)",
                                                                              "optset": progrun.OPTION_SETS[optset]}, case)
        elif again[0][0] == "timeout":
            out.violation(f"{keyprefix}/nontermination", {"text": text, "expected": repr(preds["faithful"])[:300], "time_limits_s": [R.time_limit, R.time_limit * 2], "trace_before_timeout": again[1][:40]}, case)
        else:
            out.incon("program hit the wall-clock bound once but finished on retry", case)
        return observed
    cl = progrun.classify(observed, preds, what)
    if cl is None:
        return observed
    if observed[0][0] == "compile-error":
        msg = observed[0][2]
        head = "".join(ch if ch.isalpha() or ch == " " else "" for ch in msg)[:40].strip().replace(" ", "-")
        out.violation(f"{keyprefix}/compile-error/{observed[0][1]}/{head}", {"text": text, "error": observed[0], "optset": progrun.OPTION_SETS[optset], "expected": repr(preds["faithful"][0])[:300]}, case)
        return observed
    if cl[0] == "known":
        out.violation(KNOWN_KEY[cl[1]].replace("C01", keyprefix), {"text": text, "expected": repr(preds["faithful"])[:400], "observed": repr(observed)[:400], "explained_by_defect_model": cl[1], "optset": progrun.OPTION_SETS[optset]}, case)
        return observed
    exp = preds["faithful"]
    if what == "result":
        key = f"{keyprefix}/result-mismatch/{diffclass(observed, exp)}"
    else:
        key = f"{keyprefix}/{what}-mismatch"
    wit = {"text": text, "expected": repr(exp)[:500], "observed": repr(observed)[:500], "ctx": ctx, "optset": progrun.OPTION_SETS[optset], "defect_models": {k: repr(v)[:200] for k, v in preds.items() if k != "faithful"}}
    if out.viol_per_key.get(key, 0) < 2:
        small = minimise(R, eprog, optset, macros, what)
        if small is not None:
            wit["minimal_text"] = progs.render(small, macros=macros)
            wit["minimal_expected"] = repr(progs.Ref().run(small))[:300]
            wit["minimal_observed"] = repr(R.run_text(wit["minimal_text"], optset, fresh=True))[:300]
            case["prog_repr"] = repr(small)
    out.violation(key, wit, case)
    return observed


def minimise(R, eprog, optset, macros, what):
    from vf import progrun, shrink

    def fails(p):
        text = progs.render(p, macros=macros)
        preds = progrun.predictions(p)
        if preds["faithful"] is None:
            return False
        obs = R.run_text(text, optset, fresh=True)
        if obs[0][0] == "compile-error":
            return False
        cl = progrun.classify(obs, preds, what)
        return cl is not None and cl[0] == "new"

    try:
        return shrink.shrink(eprog, fails, max_tests=600)
    except Exception:
        return None


def worker(spec, out):
    from vf import boot, progrun

    b = boot.init()
    R = progrun.Runner(b)
    rnd = random.Random(spec["seed"])

    if "replay" in spec:
        c = spec["replay"]
        # replay re-generates the program from its text is not possible: the case carries the generator seed
        if "prog_repr" in c:
            import ast as _ast

            check_program(R, out, _ast.literal_eval(c["prog_repr"]), "top", c["optset"], c["macros"], {"gen": "minimal"})
        prog = regen(c)
        check_program(R, out, prog, c["ctx"], c["optset"], c["macros"], {k: c[k] for k in ("gen", "gseed", "idx", "max_nodes") if k in c})
        return

    if spec["kind"] == "exh":
        allp = progs.enumerate_small(spec["max_nodes"])
        out.setx("exhaustive_space_size", len(allp))
        for idx in range(spec["part"], len(allp), spec["parts"]):
            p = allp[idx]
            prog = ("let", [("x", ("const", 1)), ("y", ("const", None))], [progs.mark_all(p)])
            for j in range(2):
                ctx = progs.CONTEXTS[(idx + 3 * j) % 6]
                optset = (idx + 5 * j) % 8
                check_program(R, out, prog, ctx, optset, False, {"gen": "exh", "idx": idx, "max_nodes": spec["max_nodes"]})
            if idx < 3 * spec["parts"]:
                out.sample({"program": progs.render(prog), "kind": "exhaustive"})
            out.maybe_flush()
    elif spec["kind"] == "rand":
        for it in range(spec["n"]):
            gseed = rnd.getrandbits(48)
            prog = gen_random(gseed)
            macros = it % 5 == 0
            for j in range(2):
                ctx = progs.CONTEXTS[(it + 2 * j) % 6]
                optset = (it + 3 * j) % 8
                check_program(R, out, prog, ctx, optset, macros, {"gen": "rand", "gseed": gseed})
            if it < 2:
                out.sample({"program": progs.render(prog), "kind": "random", "expected": repr(progs.Ref().run(prog))[:300]})
            out.maybe_flush()
    elif spec["kind"] == "module":
        module_path(b, R, out, rnd, spec["n"])
    elif spec["kind"] == "munge":
        munge_workload(R, out)


def munge_workload(R, out):
    """distinct names whose munged spellings coincide must still be distinct bindings (fn parameters, nested fns, globals)"""
    pairs = [("a-b", "a_b"), ("x?", "x__Q__"), ("print", "print_"), ("x", "y"), ("a-b", "a-c"), ("class", "klass")]
    for p, q in pairs:
        templates = {
            "nested-params": (f"((fn* [{p}] ((fn* [{q}] {p}) 2)) 1)", ("val", 1)),
            "duplicate-params": (f"((fn* [{p} {q}] [{p} {q}]) 1 2)", ("val", ("vec", (1, 2)))),
            "rest-param": (f"((fn* [{p} & {q}] [{p} (first {q})]) 1 2)", ("val", ("vec", (1, 2)))),
            "global-vs-param": (f"(do (def {p} 1) ((fn* [{q}] {p}) 99))", ("val", 1)),
            "let-vs-param": (f"(let* [{p} 1] ((fn* [{q}] {p}) 2))", ("val", 1)),
            "param-vs-let": (f"((fn* [{p}] (let* [{q} 2] {p})) 1)", ("val", 1)),
            "loop-locals": (f"(loop* [{p} 1 {q} 2] [{p} {q}])", ("val", ("vec", (1, 2)))),
        }
        for tname, (text, want) in templates.items():
            for optset in (0, 4):
                obs = R.run_text(text, optset, fresh=True)
                out.ev(("munge", text, optset))
                got = obs[0] if obs[0][0] != "compile-error" else ("compile-error",)
                if got != want:
                    from basilisp.lang.util import munge

                    collide = munge(p) == munge(q)
                    key = "C01/munge-collision/fn-params" if (collide and tname in ("nested-params", "duplicate-params", "rest-param", "global-vs-param")) else f"C01/names/{tname}-wrong-binding"
                    out.violation(key, {"text": text, "expected": repr(want), "observed": repr(obs[0])[:200], "template": tname}, {"gen": "munge", "text": text, "optset": optset, "ctx": "top", "macros": False})


def gen_random(gseed, p_mark=0.15):
    r = random.Random(gseed)
    g = progs.Gen(r, p_mark=p_mark, max_depth=r.choice([3, 4, 5]))
    g.budget = r.choice([15, 30, 60])
    if r.random() < 0.2:
        # closures created in loop iterations and called after the loop (escaping closures over loop locals)
        return g.maybe_mark(g.loop("any", {}, g.max_depth, force_acc=True))
    return g.program()


def regen(c):
    if c.get("gen") == "exh":
        allp = progs.enumerate_small(c["max_nodes"])
        return ("let", [("x", ("const", 1)), ("y", ("const", None))], [progs.mark_all(allp[c["idx"]])])
    return gen_random(c["gseed"], c.get("p_mark", 0.15))


def module_path(b, R, out, rnd, n):
    """the importer path: the same programs as module-level forms of a file loaded with require (compile_module,
    module-level statements instead of a wrapper function); compared by effect trace and exception class"""
    import importlib
    import os
    import shutil
    import sys
    import tempfile

    d = tempfile.mkdtemp(prefix="vf-c01-", dir=os.environ.get("VERIF_SCRATCH") or None)
    sys.path.insert(0, d)
    try:
        for it in range(n):
            gseed = rnd.getrandbits(48)
            r = random.Random(gseed)
            g = progs.Gen(r, p_mark=0.5, max_depth=4, allow_def=False)
            prog = g.program()
            name = f"vfmod{it}"
            tr = []

            def t(k, v, tr=tr):
                tr.append(k)
                return v

            import builtins

            builtins.vf_t = t
            builtins.vf_o = progrun_HO(b)
            text = f"(ns {name})\n(def t python/vf_t)\n(def idf (fn* [x] x))\n(def o python/vf_o)\n(def HC python/vf_HC)\n(def vf-result {progs.render(prog)})\n"
            from vf import progrun

            builtins.vf_HC = progrun.HC
            with open(os.path.join(d, name + ".lpy"), "w") as f:
                f.write(text)
            exp = progs.Ref().run(prog)
            try:
                importlib.invalidate_caches()
                mod = importlib.import_module(name)
                obs = ("val", R.norm(getattr(mod, "vf_result")))
            except Exception as e:
                root = e
                while root.__cause__ is not None:
                    root = root.__cause__
                obs = ("exc", type(root).__name__)
            out.ev(("module", text))
            preds = progrun.predictions(prog)
            cl = progrun.classify((obs, list(tr)), preds, "result")
            case = {"gen": "module", "gseed": gseed, "text": text}
            if cl is not None and cl[0] == "known":
                out.violation(KNOWN_KEY[cl[1]], {"text": text, "expected": repr(exp)[:300], "observed": repr(obs)[:300], "path": "compile_module"}, case)
            elif cl is not None and cl[0] == "new":
                out.violation("C01/module-path/result-mismatch", {"text": text, "expected": repr(exp)[:300], "observed": repr((obs, tr))[:300]}, case)
            sys.modules.pop(name, None)
            if it < 1:
                out.sample({"module_text": text})
    finally:
        sys.path.remove(d)
        shutil.rmtree(d, ignore_errors=True)


def progrun_HO(b):
    from vf import progrun

    return progrun.HO(b.vec.v)
