"""C04 — persistent collections are immutable values that behave like their model.

Monitors:
  * history + executable model: every op of a branching history is mirrored on a Python list/dict/set model; every value
    ever produced is re-checked against the model snapshot taken at creation when the history ends (immutability oracle),
    together with its hash and metadata;
  * invariant at a hook: every public method of the five persistent classes is wrapped; (id(_inner), _meta, elements) of
    the receiver is snapshotted before the call and asserted unchanged after it.
"""
from __future__ import annotations

import itertools
import random
from fractions import Fraction

TYPES = ["vector", "map", "set", "list", "queue"]


def plan(tier, seed):
    q = tier == "quick"
    hs = [0, 1] if q else [0, 1, 2, 3]
    shards = []
    for ti, t in enumerate(TYPES):
        parts = 2 if q else 6
        for p in range(parts):
            shards.append({"kind": "exh", "type": t, "length": 2, "part": p, "parts": parts, "hashseed": hs[(ti + p) % len(hs)]} if q and p == 0 else {"kind": "exh", "type": t, "length": 3 if q else 4, "part": p, "parts": parts, "stride": 3 if q else 8, "hashseed": hs[(ti + p) % len(hs)]})
    for i in range(6 if q else 16):
        shards.append({"kind": "rand", "n": 120 if q else 6000, "maxlen": 60, "hashseed": hs[i % len(hs)]})
    if not q:
        # thorough only: the repository's own tests as a workload under the receiver-immutability hook (their verdicts are ignored)
        shards.insert(0, {"kind": "suite", "tests": ["tests/basilisp/core", "tests/basilisp/vector_test.py", "tests/basilisp/map_test.py", "tests/basilisp/set_test.py", "tests/basilisp/list_test.py",
                                                     "tests/basilisp/queue_test.py", "tests/basilisp/seq_test.py", "tests/basilisp/runtime_test.py", "tests/basilisp/reader_test.py"], "jobs": 5, "timeout": 3200})
    return {
        "level": "exploration",
        "exhaustive": False,
        "rule": "branching operation histories over vectors, maps, sets, lists, queues: exhaustive to length 3 (thorough 4) over (receiver = any earlier value) x (op instance over a key universe "
        "{1, 1.0, :a, [1 2], '(1 2), nil} with equal keys of different representation); random histories to length 60 that grow past 33 and 1057 elements and go through transient round trips; "
        "several hash seeds. distinct = distinct (type, history); non-trivial = histories with at least 2 ops.",
        "shards": shards,
        "hashseeds": hs,
        "min_evaluations": 3000,
        "watchdog_s": 900 if q else 3400,
        "assumptions": ["pop/nth outside the collection are not generated (error behaviour is not prescribed)", "iteration order of maps/sets and metadata propagation through pop/rest/merge are not judged"],
    }


def suite_workload(spec, out):
    """the repository's own tests run with vf.pytest_c04 loaded in every pytest process: every method call on a persistent collection made by
    the tests and by the compiler while they run is checked for receiver immutability"""
    import glob
    import json
    import os
    import shutil
    import subprocess
    import sys
    import tempfile

    from vf import build

    repo = os.environ.get("VERIF_REPO", "/repo")
    outdir = tempfile.mkdtemp(prefix="c04suite-", dir=os.environ.get("VERIF_SCRATCH") or None)
    env = dict(os.environ, VERIF_C04_OUT=outdir)
    cmd = [sys.executable, "-m", "pytest", "-q", "-p", "no:cacheprovider", "-p", "vf.pytest_c04", "--timeout=900", "-n", str(spec.get("jobs", 4))] + spec["tests"]
    try:
        p = subprocess.run(cmd, cwd=repo, env=env, capture_output=True, text=True, timeout=spec.get("timeout", 3000), preexec_fn=build.die_with_parent)
        tail = (p.stdout or "")[-300:]
        calls = nproc = 0
        for fn in glob.glob(os.path.join(outdir, "*.jsonl")):
            for line in open(fn):
                rec = json.loads(line)
                if rec["t"] == "stats":
                    nproc += 1
                    calls += rec["calls"]
                else:
                    out.violation(f"C04/{rec['cls']}/hook/receiver-mutated/{rec['method']}", {"during": "repository test " + str(rec["test"]), "method": rec["cls"] + "." + rec["method"], "args": rec["args"]}, {"kind": "suite", "test": rec["test"]})
        out.count("suite_hook_calls", calls)
        out.ev(None, n=max(1, calls // 1000))
        out.count("suite_pytest_processes_reporting", nproc)
        out.sample({"suite_tests": spec["tests"], "pytest_tail": tail, "hook_calls": calls})
        if calls == 0:
            out.incon("the repository suite workload reached no hooked method: " + tail[-200:], {"kind": "suite"})
    except subprocess.TimeoutExpired:
        out.incon("the repository suite workload hit its wall-clock bound", {"kind": "suite"})
    finally:
        shutil.rmtree(outdir, ignore_errors=True)


def worker(spec, out):
    if spec.get("kind") == "suite":
        return suite_workload(spec, out)
    from vf import boot

    b = boot.init()
    rnd = random.Random(spec["seed"])
    C = b.core
    K, V, L = b.kw.keyword, b.vec.vector, b.llist.list
    from basilisp.lang import interfaces as I
    from basilisp.lang import list as llist
    from basilisp.lang import map as lmap
    from basilisp.lang import queue as lqueue
    from basilisp.lang import set as lset
    from basilisp.lang import vector as lvec

    EQ, HASH = C("="), C("hash")
    ns = b.fresh_ns("vf.c04.")
    mk_queue = b.eval_str("(fn [xs] (into (queue) xs))", ns=ns)
    pr = C("pr-str")

    # ---- invariant hook: receivers never change (vf/c04hook.py) ------------------------------------------------------
    from vf import c04hook

    hook = c04hook.install()

    # ---- model -------------------------------------------------------------------------------------------------------
    def mk(k):
        """model key: equal basilisp values map to the same Python object"""
        if k is None or isinstance(k, (bool, str)):
            return ("s", k)
        if isinstance(k, (int, float, Fraction)):
            return ("n", Fraction(k))
        if isinstance(k, b.kw.Keyword):
            return ("k", k.ns, k.name)
        if isinstance(k, (I.IPersistentVector, I.ISeq, I.IPersistentList)):
            return ("q", tuple(mk(x) for x in k))
        raise TypeError(k)

    KEYS = [1, 1.0, K("a"), V([1, 2]), L([1, 2]), None]
    VALS = [0, 1, K("a"), None, "s"]

    class Mod:
        __slots__ = ("t", "d", "meta")

        def __init__(self, t, d, meta=None):
            self.t, self.d, self.meta = t, d, meta

        def copy(self):
            return Mod(self.t, (dict(self.d) if self.t in ("map", "set") else list(self.d)), self.meta)

    def build(t, m):
        if t == "vector":
            return V(m.d)
        if t == "list":
            return L(m.d)
        if t == "queue":
            return mk_queue(V(m.d))
        if t == "map":
            return C("hash-map")(*[x for kv in m.d.values() for x in kv])
        if t == "set":
            return C("hash-set")(*[k for k in m.d.values()])

    def same_scalar(a, c):
        if a is None or c is None or isinstance(a, bool) or isinstance(c, bool):
            return a is c
        try:
            return mk(a) == mk(c)
        except TypeError:
            return a == c

    def conforms(v, m):
        """does the real value v have exactly the contents of model m?"""
        try:
            if m.t in ("vector", "list", "queue", "seq"):
                xs = list(v) if v is not None else []
                return len(xs) == len(m.d) and all(same_scalar(x, y) for x, y in zip(xs, m.d)) and C("count")(v) == len(m.d)
            if m.t == "map":
                if len(v) != len(m.d):
                    return False
                for mkk, (k, val) in m.d.items():
                    if not v.contains(k) or not same_scalar(v.val_at(k), val):
                        return False
                for k in v.keys():
                    if mk(k) not in m.d:
                        return False
                return True
            if m.t == "set":
                if len(v) != len(m.d):
                    return False
                for mkk, k in m.d.items():
                    if k not in v:
                        return False
                for k in v:
                    if mk(k) not in m.d:
                        return False
                return True
        except Exception:
            return False
        return False

    TYPECLS = {"vector": I.IPersistentVector, "map": I.IPersistentMap, "set": I.IPersistentSet, "list": I.IPersistentList, "queue": lqueue.PersistentQueue}

    # ---- ops: each returns (real-thunk, model-result) where model result is Mod | ("scalar", value) | ("bool", b) --------
    def ops_for(t, m, rnd_):
        """all op instances applicable to a model of type t (exhaustive alphabet)"""
        out_ = []
        n = len(m.d)
        if t == "vector":
            for x in (0, K("a")):
                out_.append(("conj", [x]))
            for i in sorted({0, n}):
                out_.append(("assoc", [i, "s"]))
            if n:
                out_ += [("pop", []), ("nth", [n - 1]), ("update-inc", [0]) if isinstance(m.d[0], int) and not isinstance(m.d[0], bool) else ("nth", [0])]
            out_ += [("update-ident", [n]), ("update-ident", [0])] if n else [("update-ident", [0])]
            out_ += [("peek", []), ("get", [n]), ("get", [0]), ("contains?", [n]), ("contains?", [0]), ("count", []), ("seq", []), ("into", [[1, None]]), ("empty", []), ("with-meta", ["m1"]), ("transient", [[("conj!", [7]), ("conj!", [8])]]), ("first", []), ("rest", [])]
            if n:
                out_.append(("transient", [[("assoc!", [0, "t"]), ("pop!", [])]]))
        elif t == "map":
            for k in KEYS:
                out_.append(("assoc", [k, 0]))
            for k in (1.0, L([1, 2]), None):
                out_ += [("dissoc", [k]), ("get", [k]), ("contains?", [k])]
            out_ += [("update-ident", [K("a")]), ("update-ident", [None]), ("update-const-nil", [1.0])]
            out_ += [("count", []), ("seq", []), ("into", [[(K("a"), 1), (1, 2)]]), ("merge", [[(1.0, "m")]]), ("empty", []), ("with-meta", ["m1"]), ("conj-entry", [V([1, 2]), 5]), ("conj-map", [[(None, 1)]]), ("update-fnil", [1]),
                     ("transient", [[("assoc!", [1, "t"]), ("dissoc!", [K("a")])]]), ("transient", [[("conj!", [(None, 3)])]])]
        elif t == "set":
            for k in KEYS:
                out_.append(("conj", [k]))
            for k in (1.0, L([1, 2]), None, K("a")):
                out_ += [("disj", [k]), ("contains?", [k]), ("get", [k])]
            out_ += [("count", []), ("seq", []), ("into", [[1, K("a")]]), ("empty", []), ("with-meta", ["m1"]), ("transient", [[("conj!", [1.0]), ("disj!", [K("a")])]])]
        elif t in ("list", "queue"):
            for x in (0, K("a"), None):
                out_.append(("conj", [x]))
            if n:
                out_ += [("pop", [])]
            out_ += [("peek", []), ("count", []), ("seq", []), ("into", [[1, None]]), ("empty", []), ("with-meta", ["m1"]), ("first", []), ("rest", [])]
            if t == "list" and n:
                out_.append(("nth", [n - 1]))
        return out_

    META = {"m1": b.lmap.map({K("m"): 1}), "m2": b.lmap.map({K("doc"): "d"})}

    def apply_op(t, v, m, op, args):
        """returns (real result or ('raise', cls), model result)"""
        r = None
        d = m.d
        if op == "conj":
            x = args[0]
            real = lambda: C("conj")(v, x)
            mm = m.copy()
            if t == "vector" or t == "queue":
                mm.d.append(x)
            elif t == "list":
                mm.d.insert(0, x)
            elif t == "set":
                mm.d.setdefault(mk(x), x)
            return real, mm
        if op == "assoc":
            k, x = args
            real = lambda: C("assoc")(v, k, x)
            mm = m.copy()
            if t == "vector":
                if k == len(mm.d):
                    mm.d.append(x)
                else:
                    mm.d[k] = x
            else:
                old = mm.d.get(mk(k))
                mm.d[mk(k)] = ((old[0] if old else k), x)
            return real, mm
        if op == "dissoc":
            mm = m.copy()
            mm.d.pop(mk(args[0]), None)
            return (lambda: C("dissoc")(v, args[0])), mm
        if op == "disj":
            mm = m.copy()
            mm.d.pop(mk(args[0]), None)
            return (lambda: C("disj")(v, args[0])), mm
        if op == "pop":
            mm = m.copy()
            if t == "vector":
                mm.d.pop()
            else:
                mm.d.pop(0)
            mm.meta = None  # not judged
            return (lambda: C("pop")(v)), mm
        if op == "peek":
            val = None
            if d:
                val = d[-1] if t == "vector" else d[0]
            return (lambda: C("peek")(v)), ("scalar", val)
        if op == "first":
            return (lambda: C("first")(v)), ("scalar", d[0] if d else None)
        if op == "rest":
            return (lambda: C("rest")(v)), Mod("seq", list(d[1:]))
        if op == "nth":
            return (lambda: C("nth")(v, args[0])), ("scalar", d[args[0]])
        if op == "get":
            k = args[0]
            if t == "vector":
                val = d[k] if isinstance(k, int) and 0 <= k < len(d) else None
            elif t == "map":
                val = d[mk(k)][1] if mk(k) in d else None
            else:
                val = d[mk(k)] if mk(k) in d else None
                return (lambda: C("get")(v, k)), ("member", val, mk(k) in d)
            return (lambda: C("get")(v, k)), ("scalar", val)
        if op == "contains?":
            k = args[0]
            if t == "vector":
                val = isinstance(k, int) and 0 <= k < len(d)
            else:
                val = mk(k) in d
            return (lambda: C("contains?")(v, k)), ("bool", val)
        if op == "count":
            return (lambda: C("count")(v)), ("scalar", len(d))
        if op == "seq":
            if t in ("vector", "list", "queue"):
                return (lambda: C("seq")(v)), (Mod("seq", list(d)) if d else ("scalar", None))
            if t == "map":
                return (lambda: C("seq")(v)), (("entries", {kk: vv for kk, vv in d.items()}) if d else ("scalar", None))
            return (lambda: C("seq")(v)), (("members", dict(d)) if d else ("scalar", None))
        if op == "into":
            items = args[0]
            mm = m.copy()
            if t == "map":
                real_items = V([V([a, c]) for a, c in items])
                for a, c in items:
                    old = mm.d.get(mk(a))
                    mm.d[mk(a)] = ((old[0] if old else a), c)
            else:
                real_items = V(items)
                for x in items:
                    if t in ("vector", "queue"):
                        mm.d.append(x)
                    elif t == "list":
                        mm.d.insert(0, x)
                    else:
                        mm.d.setdefault(mk(x), x)
            return (lambda: C("into")(v, real_items)), mm
        if op == "merge":
            mm = m.copy()
            for a, c in args[0]:
                old = mm.d.get(mk(a))
                mm.d[mk(a)] = ((old[0] if old else a), c)
            mm.meta = None
            other = C("hash-map")(*[x for kv in args[0] for x in kv])
            return (lambda: C("merge")(v, other)), mm
        if op == "conj-entry":
            k, x = args
            mm = m.copy()
            old = mm.d.get(mk(k))
            mm.d[mk(k)] = ((old[0] if old else k), x)
            return (lambda: C("conj")(v, V([k, x]))), mm
        if op == "conj-map":
            mm = m.copy()
            for a, c in args[0]:
                old = mm.d.get(mk(a))
                mm.d[mk(a)] = ((old[0] if old else a), c)
            other = C("hash-map")(*[x for kv in args[0] for x in kv])
            return (lambda: C("conj")(v, other)), mm
        if op == "update-inc":
            i = args[0]
            mm = m.copy()
            mm.d[i] = mm.d[i] + 1
            return (lambda: C("update")(v, i, C("inc"))), mm
        if op in ("update-ident", "update-const-nil"):
            # update with a function that may return nil, also for an absent key / the append index of a vector
            k = args[0]
            mm = m.copy()
            if t == "vector":
                cur = mm.d[k] if k < len(mm.d) else None
                new = cur if op == "update-ident" else None
                if k == len(mm.d):
                    mm.d.append(new)
                else:
                    mm.d[k] = new
            else:
                old = mm.d.get(mk(k))
                cur = old[1] if old else None
                mm.d[mk(k)] = ((old[0] if old else k), cur if op == "update-ident" else None)
            f = C("identity") if op == "update-ident" else (lambda x: None)
            return (lambda: C("update")(v, k, f)), mm
        if op == "update-fnil":
            k = args[0]
            mm = m.copy()
            old = mm.d.get(mk(k))
            cur = old[1] if old else None
            mm.d[mk(k)] = ((old[0] if old else k), ("u", ) if False else (K("was-nil") if cur is None else cur))
            f = lambda x: K("was-nil") if x is None else x
            return (lambda: C("update")(v, k, f)), mm
        if op == "empty":
            mm = Mod(t, {} if t in ("map", "set") else [], m.meta)
            return (lambda: C("empty")(v)), mm
        if op == "with-meta":
            mm = m.copy()
            mm.meta = args[0]
            return (lambda: C("with-meta")(v, META[args[0]])), mm
        if op == "transient":
            subs = args[0]
            mm = m.copy()
            mm.meta = None  # metadata through a transient round trip is not judged
            for sop, sa in subs:
                if sop == "conj!":
                    if t == "vector":
                        mm.d.append(sa[0])
                    elif t == "set":
                        mm.d.setdefault(mk(sa[0]), sa[0])
                    else:
                        k, x = sa[0]
                        old = mm.d.get(mk(k))
                        mm.d[mk(k)] = ((old[0] if old else k), x)
                elif sop == "assoc!":
                    if t == "vector":
                        mm.d[sa[0]] = sa[1]
                    else:
                        old = mm.d.get(mk(sa[0]))
                        mm.d[mk(sa[0])] = ((old[0] if old else sa[0]), sa[1])
                elif sop in ("dissoc!", "disj!"):
                    mm.d.pop(mk(sa[0]), None)
                elif sop == "pop!":
                    mm.d.pop()

            def real():
                tv = C("transient")(v)
                for sop, sa in subs:
                    if sop == "conj!" and t == "map":
                        tv = C("conj!")(tv, V(list(sa[0])))
                    else:
                        tv = C(sop)(tv, *sa)
                return C("persistent!")(tv)

            return real, mm
        raise KeyError(op)

    def check_result(t, res, mres, ctxinfo):
        """compare real result with model result; returns failure label or None"""
        if isinstance(mres, Mod):
            # the concrete class of a result is not prescribed (pop of a one-element list is the empty seq); a result of the
            # wrong kind shows up as a model mismatch on the operations applied to it later in the history
            if not conforms(res, mres):
                return "result-contents"
            return None
        tag = mres[0]
        if tag == "scalar":
            return None if same_scalar(res, mres[1]) else "result-value"
        if tag == "bool":
            return None if (res is True or res is False) and res == mres[1] else "result-value"
        if tag == "member":
            if not mres[2]:
                return None if res is None else "result-value"
            return None if same_scalar(res, mres[1]) else "result-value"
        if tag == "entries":
            es = list(res) if res is not None else []
            if len(es) != len(mres[1]):
                return "result-contents"
            for e in es:
                k, val = e[0], e[1]
                if mk(k) not in mres[1] or not same_scalar(mres[1][mk(k)][1], val):
                    return "result-contents"
            return None
        if tag == "members":
            xs = list(res) if res is not None else []
            if len(xs) != len(mres[1]) or any(mk(x) not in mres[1] for x in xs):
                return "result-contents"
            return None
        return "harness"

    def run_history(t, steps, label):
        """steps: list of (receiver_index, op, args). Returns number of ops applied."""
        hook["viol"].clear()
        m0 = Mod(t, {} if t in ("map", "set") else [])
        v0 = build(t, m0)
        pool = [(v0, m0.copy(), HASH(v0))]
        hist = []
        for ri, op, args in steps:
            ri = ri % len(pool)
            v, m, _h = pool[ri]
            case = {"type": t, "history": hist + [[ri, op, repr(args)]], "label": label, "steps": [[r_, o_, enc(a_)] for r_, o_, a_ in steps]}
            hist.append([ri, op, repr(args)])
            try:
                real, mres = apply_op(t, v, m, op, args)
            except (IndexError, KeyError, TypeError):
                continue  # op not applicable to this receiver (e.g. pop on an empty model)
            meta_before = getattr(v, "meta", None)
            try:
                res = real()
            except Exception as e:
                out.violation(f"C04/{t}/{op}/raises/{type(e).__name__}", {"history": hist, "exc": repr(e)[:160]}, case)
                return
            out.count("ops")
            out.count("op_" + op)
            f = check_result(t, res, mres, hist)
            if f:
                out.violation(f"C04/{t}/{op}/{f}", {"history": hist, "result": pr(res)[:200], "model": repr(getattr(mres, 'd', mres))[:200]}, case)
                return
            if op == "with-meta":
                # equal value, same hash, carries exactly the given metadata, original untouched
                ok = bool(EQ(res, v)) and bool(EQ(v, res)) and HASH(res) == HASH(v) and res.meta == META[args[0]]
                orig_meta_ok = v.meta is meta_before
                if not ok or not orig_meta_ok:
                    out.violation(f"C04/{t}/with-meta/{'original-meta-changed' if not orig_meta_ok else 'meta-affects-equality-or-missing'}", {"history": hist, "result_meta": pr(res.meta), "orig_meta": pr(v.meta)}, case)
                    return
            if isinstance(mres, Mod) and mres.t != "seq":
                pool.append((res, mres.copy(), HASH(res)))
        # immutability oracle: every value ever produced still equals its model snapshot
        for idx, (v, m, h) in enumerate(pool):
            out.count("pool_values_rechecked")
            if not conforms(v, m) or HASH(v) != h:
                out.violation(f"C04/{t}/immutability/earlier-value-changed", {"history": hist, "pool_index": idx, "value_now": pr(v)[:200], "model": repr(m.d)[:200], "hash_changed": HASH(v) != h}, {"type": t, "history": hist, "label": label, "steps": [[r_, o_, enc(a_)] for r_, o_, a_ in steps]})
                return
            if m.meta is not None and (v.meta != META[m.meta]):
                out.violation(f"C04/{t}/immutability/earlier-meta-changed", {"history": hist, "pool_index": idx}, {"type": t, "history": hist, "label": label, "steps": [[r_, o_, enc(a_)] for r_, o_, a_ in steps]})
                return
        if hook["viol"]:
            out.violation(f"C04/{t}/hook/receiver-mutated/{hook['viol'][0][1]}", {"history": hist, "hook": hook["viol"][:3]}, {"type": t, "history": hist, "label": label, "steps": [[r_, o_, enc(a_)] for r_, o_, a_ in steps]})

    def enc(a):
        if isinstance(a, b.kw.Keyword):
            return {"k": a.name}
        if isinstance(a, I.IPersistentVector):
            return {"v": [enc(x) for x in a]}
        if isinstance(a, I.IPersistentList):
            return {"l": [enc(x) for x in a]}
        if isinstance(a, tuple):
            return {"t": [enc(x) for x in a]}
        if isinstance(a, list):
            return {"a": [enc(x) for x in a]}
        if isinstance(a, float):
            return {"f": a}
        return a

    def dec(a):
        if isinstance(a, dict):
            (tag, val), = a.items()
            if tag == "k":
                return K(val)
            if tag == "v":
                return V([dec(x) for x in val])
            if tag == "l":
                return L([dec(x) for x in val])
            if tag == "t":
                return tuple(dec(x) for x in val)
            if tag == "a":
                return [dec(x) for x in val]
            if tag == "f":
                return float(val)
        return a

    def parse_steps(hist):
        return [(ri, op, eval(a, {"K": K, "V": V, "L": L, "Fraction": Fraction, "kw": None})) for ri, op, a in hist]

    if "replay" in spec:
        c = spec["replay"]
        steps = [(r_, o_, dec(a_)) for r_, o_, a_ in c["steps"]]
        out.ev(("replay", 1))
        out.ev(("replay", 2))
        run_history(c["type"], steps, "replay")
        return

    if spec["kind"] == "exh":
        t = spec["type"]
        length = spec["length"]
        count = [0]

        def rec(prefix_steps, models, depth):
            """enumerate histories depth-first; models = model per pool entry (built by replaying on models only)"""
            if depth == length:
                return
            for ri in range(len(models)):
                for op, args in ops_for(t, models[ri], rnd):
                    steps = prefix_steps + [(ri, op, args)]
                    count[0] += 1
                    if count[0] % spec["parts"] == spec["part"] or depth + 1 < length:
                        pass
                    # model-only replay to know the new pool (cheap)
                    try:
                        _real, mres = apply_op(t, None, models[ri], op, args)
                    except (IndexError, KeyError, TypeError):
                        continue
                    new_models = models + [mres.copy()] if isinstance(mres, Mod) and mres.t != "seq" else models
                    if depth + 1 == length:
                        if count[0] % (spec["parts"] * spec.get("stride", 1)) == spec["part"]:
                            out.ev((t, repr(steps)))
                            run_history(t, steps, "exh")
                            if count[0] < 4:
                                out.sample({"type": t, "history": [[r, o, repr(a)] for r, o, a in steps]})
                    else:
                        rec(steps, new_models, depth + 1)

        rec([], [Mod(t, {} if t in ("map", "set") else [])], 0)
        # shorter histories too
        for L_ in range(1, length):
            pass
        out.setx("exhaustive_histories_enumerated_" + t, count[0])
        out.maybe_flush()
    else:
        for it in range(spec["n"]):
            t = rnd.choice(TYPES)
            n = rnd.randint(2, spec["maxlen"])
            steps = []
            models = [Mod(t, {} if t in ("map", "set") else [])]
            grow = rnd.random() < 0.3
            if grow:
                size = rnd.choice([33, 34, 65, 1057, 1100])
                if t == "map":
                    steps.append((0, "into", [[(i, i) for i in range(2, size + 2)]]))
                else:
                    steps.append((0, "into", [list(range(2, size + 2))]))
                try:
                    _r, mres = apply_op(t, None, models[0], steps[0][1], steps[0][2])
                    models.append(mres.copy())
                except Exception:
                    pass
            for _ in range(n):
                ri = rnd.randrange(len(models))
                cand = ops_for(t, models[ri], rnd)
                op, args = rnd.choice(cand)
                try:
                    _r, mres = apply_op(t, None, models[ri], op, args)
                except (IndexError, KeyError, TypeError):
                    continue
                steps.append((ri, op, args))
                if isinstance(mres, Mod) and mres.t != "seq":
                    models.append(mres.copy())
            out.ev((t, repr(steps)[:2000]))
            run_history(t, steps, "rand")
            if it < 2:
                out.sample({"type": t, "history": [[r, o, repr(a)[:60]] for r, o, a in steps][:12]})
            out.maybe_flush()
    out.setx("hook_calls", hook["calls"])
