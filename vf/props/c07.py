"""C07 — sequence functions and their transducers agree with each other and with the reference definitions.

Monitor: for each function/pipeline and input, the element lists of the five application forms
  lazy (f args xs) | (into [] xf xs) | (sequence xf xs) | (transduce xf conj xs) | (eduction xf xs)
are compared with list-based reference definitions (nil/false are ordinary elements); pulls from an instrumented input
and completion-arity calls of an instrumented reducing function are counted for early termination.
"""
from __future__ import annotations

import itertools
import random

ELEMS = [None, False, 0, 1, 2, "KW"]  # "KW" stands for the keyword :a


# ---- reference definitions (plain Python lists) -------------------------------------------------------------------
def truthy(x):
    return not (x is None or x is False)


def eqv(a, b):
    if a is None or b is None or isinstance(a, bool) or isinstance(b, bool):
        return a is b
    if isinstance(a, (list, tuple)) and isinstance(b, (list, tuple)):
        return len(a) == len(b) and all(eqv(x, y) for x, y in zip(a, b))
    return type(a) is type(b) and a == b


def isnum(x):
    return isinstance(x, int) and not isinstance(x, bool)


PY_FNS = {
    "identity": lambda x: x,
    "nil?": lambda x: x is None,
    "number?": isnum,
    "some?": lambda x: x is not None,
    "vector": lambda x: [x],
    "const-nil": lambda x: None,
    "num-or-nil": lambda x: x if isnum(x) else None,
    "const-false": lambda x: False,
    "dup": lambda x: [x, x],
    "nil->empty": lambda x: [] if x is None else [x],
    "pair-nil": lambda x: [x, None],
}
LISP_FNS = {
    "identity": "identity",
    "nil?": "nil?",
    "number?": "number?",
    "some?": "some?",
    "vector": "vector",
    "const-nil": "(fn [x] nil)",
    "num-or-nil": "(fn [x] (if (number? x) x nil))",
    "const-false": "(fn [x] false)",
    "dup": "(fn [x] [x x])",
    "nil->empty": "(fn [x] (if (nil? x) [] [x]))",
    "pair-nil": "(fn [x] [x nil])",
}


CONFLATE = [False]


def eqv_model(a, b):
    """equality as the stages that compare neighbours (dedupe, partition-by) see it. Faithful: eqv. Under the defect model of the recorded
    finding C05/bool-num-conflation/in-collection, two collections are equal when their elements are equal with false ~ 0 and true ~ 1
    (top-level scalars are compared faithfully: (= false 0) is false)."""
    if CONFLATE[0] and isinstance(a, (list, tuple)) and isinstance(b, (list, tuple)):
        try:
            return a == b
        except Exception:
            return eqv(a, b)
    return eqv(a, b)


def ref_stage(st, xs):
    name, p = st
    if name == "map":
        return [PY_FNS[p](x) for x in xs]
    if name == "filter":
        return [x for x in xs if truthy(PY_FNS[p](x))]
    if name == "remove":
        return [x for x in xs if not truthy(PY_FNS[p](x))]
    if name == "keep":
        return [y for y in (PY_FNS[p](x) for x in xs) if y is not None]
    if name == "keep-indexed":
        if p == "even-idx":
            return [x for i, x in enumerate(xs) if i % 2 == 0 and x is not None]
        return [x for x in xs if x is not None]
    if name == "map-indexed":
        return [[i, x] for i, x in enumerate(xs)]
    if name == "take":
        return xs[:p]
    if name == "drop":
        return xs[p:]
    if name == "take-while":
        out = []
        for x in xs:
            if not truthy(PY_FNS[p](x)):
                break
            out.append(x)
        return out
    if name == "drop-while":
        i = 0
        while i < len(xs) and truthy(PY_FNS[p](xs[i])):
            i += 1
        return xs[i:]
    if name == "take-nth":
        return xs[::p]
    if name == "interpose":
        out = []
        for i, x in enumerate(xs):
            if i:
                out.append(p)
            out.append(x)
        return out
    if name == "partition-all":
        return [xs[i : i + p] for i in range(0, len(xs), p)]
    if name == "partition-by":
        out = []
        for x in xs:
            k = PY_FNS[p](x)
            if out and eqv_model(out[-1][0], k):
                out[-1][1].append(x)
            else:
                out.append((k, [x]))
        return [g for _, g in out]
    if name == "distinct":
        out = []
        for x in xs:
            if CONFLATE[0]:
                # defect model of the recorded finding: membership in a set conflates booleans with 0/1 (see C05)
                try:
                    dup = any((x == y) for y in out)
                except Exception:
                    dup = False
                if not dup:
                    out.append(x)
                continue
            if not any(eqv(x, y) for y in out):
                out.append(x)
        return out
    if name == "dedupe":
        out = []
        for x in xs:
            if not out or not eqv_model(out[-1], x):
                out.append(x)
        return out
    if name == "mapcat":
        out = []
        for x in xs:
            r = PY_FNS[p](x)
            if r:
                out.extend(r)
        return out
    if name == "cat":
        out = []
        for x in xs:
            out.extend([x, None])  # input of cat is pre-mapped through pair-nil
        return out
    raise KeyError(name)


def lisp_param(name, p):
    if name in ("map", "filter", "remove", "keep", "take-while", "drop-while", "partition-by", "mapcat"):
        return LISP_FNS[p]
    if name == "keep-indexed":
        return "(fn [i x] (if (even? i) x nil))" if p == "even-idx" else "(fn [i x] x)"
    if name == "map-indexed":
        return "(fn [i x] [i x])"
    if name == "interpose":
        return ":s" if p == "SEP" else "nil"
    if name in ("take", "drop", "take-nth", "partition-all"):
        return str(p)
    return None


def xf_text(st):
    name, p = st
    if name == "cat":
        return "(comp (map (fn [x] [x nil])) cat)"
    if name in ("distinct", "dedupe"):
        return f"({name})"
    return f"({name} {lisp_param(name, p)})"


def lazy_text(st, inner):
    name, p = st
    if name == "cat":
        return f"(mapcat (fn [x] [x nil]) {inner})"
    if name in ("distinct", "dedupe"):
        return f"({name} {inner})"
    return f"({name} {lisp_param(name, p)} {inner})"


STAGES = (
    [("map", f) for f in ("identity", "vector", "nil?", "const-nil")]
    + [("filter", f) for f in ("identity", "nil?", "number?", "some?")]
    + [("remove", f) for f in ("identity", "nil?", "number?")]
    + [("keep", f) for f in ("identity", "num-or-nil", "const-false")]
    + [("keep-indexed", "even-idx"), ("keep-indexed", "all"), ("map-indexed", None)]
    + [("take", n) for n in (0, 1, 2, 5)]
    + [("drop", n) for n in (0, 1, 2, 5)]
    + [("take-while", f) for f in ("identity", "nil?", "some?")]
    + [("drop-while", f) for f in ("identity", "nil?", "some?")]
    + [("take-nth", n) for n in (1, 2, 3)]
    + [("interpose", "SEP"), ("interpose", None)]
    + [("partition-all", n) for n in (1, 2, 3)]
    + [("partition-by", f) for f in ("identity", "nil?", "number?")]
    + [("distinct", None), ("dedupe", None)]
    + [("mapcat", f) for f in ("dup", "nil->empty", "const-nil")]
    + [("cat", None)]
)
TERMINATING = {"take", "take-while"}
FORMS = ["lazy", "into", "sequence", "transduce", "eduction"]


def plan(tier, seed):
    q = tier == "quick"
    shards = []
    ns = 6 if q else 12
    for i in range(ns):
        shards.append({"kind": "single", "maxlen": 4 if q else 6, "part": i, "parts": ns})
    for i in range(6 if q else 16):
        shards.append({"kind": "pipes", "n": 450 if q else 9000, "depth": 2 if q else 3, "maxlen": 3 if q else 5})
    shards.append({"kind": "termination", "n": 250 if q else 600})
    if not q:
        for _ in range(6):
            shards.append({"kind": "termination", "n": 3000})
    return {
        "level": "exploration",
        "exhaustive": True,
        "rule": "each of the 18 functions with small parameters (52 function/parameter cases) x every input sequence up to length 4 (thorough 6) over {nil,false,0,1,2,:a} x the five application "
        "forms (exhaustive); random pipelines of depth <= 2 (thorough 3) via comp on short inputs; terminating pipelines on instrumented inputs of length L, 2L and infinite with pull and "
        "completion counting. distinct = distinct (pipeline, input); non-trivial = non-empty input.",
        "shards": shards,
        "min_evaluations": 5000,
        "watchdog_s": 1200 if q else 3400,
        "assumptions": ["parameters stay in the domain where Clojure's definition is unambiguous", "the type of inner partitions is not compared, only contents", "transduce on an empty collection returning init without completion is documented behaviour and not judged"],
    }


def input_class(xs):
    if not xs:
        return "empty"
    if any(x is None or x is False for x in xs):
        return "falsey"
    return "plain"


def worker(spec, out):
    from vf import boot

    b = boot.init()
    rnd = random.Random(spec["seed"])
    K, V = b.kw.keyword, b.vec.vector
    from basilisp.lang import interfaces as I

    ns = b.fresh_ns("vf.c07.")
    KW = K("a")
    SEP = K("s")

    def to_lisp(x):
        if x == "KW" and isinstance(x, str):
            return KW
        if isinstance(x, list):
            return V([to_lisp(y) for y in x])
        return x

    def from_lisp(x, depth=0):
        if x is KW:
            return "KW"
        if x is SEP:
            return "SEP"
        if x is None or isinstance(x, (bool, int, str)):
            return x
        if isinstance(x, (I.IPersistentVector, I.ISeq, I.IPersistentList)) or hasattr(x, "__iter__"):
            return [from_lisp(y, depth + 1) for y in x]
        return repr(x)

    compiled = {}

    def fns_for(pipe):
        key = tuple(pipe)
        f = compiled.get(key)
        if f is None:
            inner = "xs"
            for st in pipe:
                inner = lazy_text(st, inner)
            xf = "(comp " + " ".join(xf_text(st) for st in pipe) + ")" if len(pipe) > 1 else xf_text(pipe[0])
            f = {
                "lazy": b.eval_str(f"(fn [xs] {inner})", ns=ns),
                "into": b.eval_str(f"(fn [xs] (into [] {xf} xs))", ns=ns),
                "sequence": b.eval_str(f"(fn [xs] (sequence {xf} xs))", ns=ns),
                "transduce": b.eval_str(f"(fn [xs] (transduce {xf} conj xs))", ns=ns),
                "eduction": b.eval_str(f"(fn [xs] (eduction {xf} xs))", ns=ns),
                "xf": b.eval_str(xf, ns=ns) if not any(st[0] in ("distinct", "dedupe") for st in pipe) else None,
                "xf_text": xf,
                "lazy_text": inner,
            }
            compiled[key] = f
        return f

    def ref_pipe(pipe, xs):
        cur = list(xs)
        for st in pipe:
            cur = ref_stage(st, cur)
        return cur

    def norm_ref(x):
        if isinstance(x, list):
            return [norm_ref(y) for y in x]
        return x

    def fn_set(pipe):
        return "+".join(sorted({st[0] for st in pipe}))

    def check(pipe, xs, forms=FORMS):
        f = fns_for(pipe)
        want = ref_pipe(pipe, xs)
        want = [("SEP" if y == "SEP" else y) for y in want]
        lxs = V([to_lisp(x) for x in xs])
        out.ev((f["xf_text"], tuple(map(repr, xs))) if xs else None)
        for form in forms:
            out.count("form_" + form)
            case = {"kind": "pipe", "pipe": [list(st) for st in pipe], "xs": list(xs), "form": form}
            try:
                res = f[form](lxs)
                got = from_lisp(res)
                if got is None:
                    got = []
            except Exception as e:
                out.violation(f"C07/{fn_set(pipe)}/{form}/raises-{type(e).__name__}/{input_class(xs)}", {"pipeline": f["xf_text"], "input": xs, "exc": repr(e)[:200]}, case)
                continue
            if not eqv(got, want):
                key = f"C07/{fn_set(pipe)}/{form}/{input_class(xs)}"
                if any(st[0] in ("distinct", "dedupe", "partition-by") for st in pipe):
                    CONFLATE[0] = True
                    try:
                        alt = ref_pipe(pipe, xs)
                    finally:
                        CONFLATE[0] = False
                    if eqv(got, alt):
                        key = "C07/distinct/bool-num-conflation" if any(st[0] == "distinct" for st in pipe) else "C07/nested-equality/bool-num-conflation"
                out.violation(key, {"pipeline": f["xf_text"] if form != "lazy" else f["lazy_text"], "form": form, "input": xs, "expected": want, "got": got}, case)

    class PullBudget(Exception):
        pass

    class CountingIter:
        def __init__(self, items, infinite=False):
            self.items, self.infinite, self.i, self.pulls = items, infinite, 0, 0

        def __iter__(self):
            return self

        def __next__(self):
            if not self.infinite and self.i >= len(self.items):
                raise StopIteration
            self.pulls += 1
            if self.infinite and self.pulls > 20000:
                raise PullBudget()  # logical bound: the reference result is determined by the first 8L (<= 32) elements
            v = self.items[self.i % len(self.items)]
            self.i += 1
            return v

    def termination(pipe, base):
        """a pipeline ending in a terminating stage on inputs of length L, 2L and infinite: same result, pulls independent of
        the input length, completion exactly once for transduce"""
        f = fns_for(pipe)
        want = ref_pipe(pipe, base * 4)
        want_short = ref_pipe(pipe, base)
        if not eqv(want, ref_pipe(pipe, base * 8)):
            return  # the terminating stage is not reached within 4L: not a termination case
        last = pipe[-1]
        before = ref_pipe(pipe[:-1], base * 4)
        if last[0] == "take" and (len(want) != last[1] or last[1] == 0 and False):
            return  # take n was not satisfied within 4L: an infinite input would legitimately never terminate
        if last[0] == "take-while" and len(want) >= len(before):
            return  # the predicate never fails within 4L
        if last[0] == "take" and last[1] > 0 and len(ref_pipe(pipe[:-1], base * 3)) < last[1]:
            return
        if any(st[0] in ("partition-all", "partition-by") for st in pipe[:-1]):
            # a partitioning stage hands its last partition down only when the input ends: on an infinite input the terminating stage
            # must be reached by elements produced before that final flush, i.e. the stream in front of it must keep growing with the
            # input and must hold more than the elements that decide
            before8 = ref_pipe(pipe[:-1], base * 8)
            if len(before8) <= len(before):
                return
            if last[0] == "take" and len(before) < last[1] + 1:
                return
            if last[0] == "take-while" and len(want) >= len(before) - 1:
                return
        # the recorded bool~number conflation of distinct changes what reaches the terminating stage: when the defect model predicts
        # another result for this case, whatever goes wrong in it (other elements, unbounded consumption) is that finding
        known_key = None
        if any(st[0] == "distinct" for st in pipe):
            CONFLATE[0] = True
            try:
                twins = any(x is False for x in base) and any(x == 0 and x is not False for x in base) or any(x is True for x in base) and any(x == 1 and x is not True for x in base)
                if twins or not eqv(ref_pipe(pipe, base * 4), want):
                    # (with both twins in the input the conflating distinct never emits the second one, so a later stage may wait for ever)
                    known_key = "C07/distinct/bool-num-conflation"
            finally:
                CONFLATE[0] = False
        results = {}
        for form in ("lazy", "sequence", "transduce", "into", "eduction"):
            pulls = {}
            for label, items, inf in (("4L", base * 4, False), ("8L", base * 8, False), ("inf", base, True)):
                it = CountingIter([to_lisp(x) for x in items], infinite=inf)
                src = b.core("iterator-seq")(it) if form in ("lazy", "sequence", "eduction") else b.core("iterator-seq")(it)
                out.count("termination_runs")
                case = {"kind": "term", "pipe": [list(st) for st in pipe], "base": list(base), "form": form}
                try:
                    got = from_lisp(f[form](src))
                    got = got or []
                except PullBudget:
                    out.violation(known_key or f"C07/early-termination/unbounded-consumption/{form}/{fn_set(pipe)}", {"pipeline": f["xf_text"], "form": form, "input": "infinite repetition of " + repr(base), "result_determined_by_first": len(base) * 8,
                                                                                                      "elements_pulled": it.pulls, "expected": want}, case)
                    break
                except Exception as e:
                    out.violation(known_key or f"C07/{fn_set(pipe)}/{form}/raises-{type(e).__name__}/infinite", {"pipeline": f["xf_text"], "input": label, "exc": repr(e)[:200]}, case)
                    break
                pulls[label] = it.pulls
                if not eqv(got, want):
                    out.violation(known_key or f"C07/{fn_set(pipe)}/{form}/{'infinite' if inf else input_class(items)}", {"pipeline": f["xf_text"], "form": form, "input": label + " x " + repr(base), "expected": want, "got": got}, case)
                    break
            else:
                out.ev((f["xf_text"], form, tuple(map(repr, base))))
                if len(set(pulls.values())) != 1:
                    out.violation(f"C07/early-termination/pulls-depend-on-input-length/{form}", {"pipeline": f["xf_text"], "pulls": pulls, "base": base}, {"kind": "term", "pipe": [list(st) for st in pipe], "base": list(base), "form": form})
                elif last[0] == "take" and last[1] >= 1 and known_key is None and not any(st[0] in ("partition-all", "partition-by") for st in pipe):
                    # the result is decided by the element that satisfies take n: nothing after it may be consumed
                    seq8 = base * 8
                    p_min = next((p for p in range(len(seq8) + 1) if len(ref_pipe(pipe, seq8[:p])) == last[1]), None)
                    out.count("exact_consumption_checks")
                    # (lazy seq functions may look ahead - interpose needs to know whether an element follows, and one element of an
                    # intermediate seq can stand for several inputs - so the lazy form is judged only by the pulls-independent-of-length
                    # rule above and by C06's on-demand bound; reductions may not consume anything past the deciding element)
                    if p_min is not None and form != "lazy" and pulls["inf"] > p_min:
                        out.violation(f"C07/early-termination/consumes-beyond-the-deciding-element/{form}", {"pipeline": f["xf_text"], "form": form, "base": base, "deciding_element_index": p_min, "elements_pulled": pulls["inf"]},
                                      {"kind": "term", "pipe": [list(st) for st in pipe], "base": list(base), "form": form})
        # completion exactly once for transduce with an instrumented reducing function
        if f["xf"] is not None:
            calls = {"init": 0, "complete": 0, "step": 0}

            def rf(*a):
                if len(a) == 0:
                    calls["init"] += 1
                    return V([])
                if len(a) == 1:
                    calls["complete"] += 1
                    return a[0]
                calls["step"] += 1
                return a[0].cons(a[1])

            it = CountingIter([to_lisp(x) for x in base * 4])
            try:
                res = b.core("transduce")(f["xf"], rf, b.core("iterator-seq")(it))
                out.count("completion_checks")
                if calls["complete"] != 1:
                    out.violation(f"C07/completion/called-{calls['complete']}-times/{fn_set(pipe)}", {"pipeline": f["xf_text"], "calls": calls, "base": base}, {"kind": "term", "pipe": [list(st) for st in pipe], "base": list(base), "form": "transduce"})
            except Exception as e:
                out.violation(f"C07/{fn_set(pipe)}/transduce/raises-{type(e).__name__}/instrumented-rf", {"pipeline": f["xf_text"], "exc": repr(e)[:200]}, {"kind": "term", "pipe": [list(st) for st in pipe], "base": list(base), "form": "transduce"})

    def tup(st):
        return (st[0], st[1])

    if "replay" in spec:
        c = spec["replay"]
        pipe = [tup(st) for st in c["pipe"]]
        if c["kind"] == "pipe":
            check(pipe, c["xs"], [c["form"]])
        elif c["kind"] == "term":
            termination(pipe, c["base"])
        elif c["kind"] == "iterate":
            iterate_check()
        return

    def iterate_check():
        """infinite inputs behind a terminating stage, including (iterate not true) and (repeat nil)"""
        for text, want in (("(take 4 (iterate not true))", [True, False, True, False]), ("(take 3 (repeat nil))", [None, None, None]), ("(take 4 (cycle [nil 1]))", [None, 1, None, 1]),
                           ("(into [] (take 4) (iterate not true))", [True, False, True, False]), ("(sequence (comp (map nil?) (take 3)) (repeat nil))", [True, True, True]),
                           ("(transduce (take 3) conj (cycle [nil false]))", [None, False, None]), ("(into [] (comp (filter nil?) (take 2)) (cycle [1 nil]))", [None, None]),
                           ("(take 3 (iterate (fn [x] nil) 1))", [1, None, None]), ("(into [] (eduction (take 3) (range)))", [0, 1, 2]), ("(take 3 (dedupe (cycle [nil nil 1])))", [None, 1, None])):
            out.ev(("inf", text))
            try:
                got = from_lisp(b.eval_str(text, ns=ns)) or []
            except Exception as e:
                out.violation(f"C07/infinite-input/raises-{type(e).__name__}", {"form": text, "exc": repr(e)[:200]}, {"kind": "iterate", "pipe": []})
                continue
            if not eqv(got, want):
                src = "iterate" if "iterate" in text else ("dedupe" if "dedupe" in text else "other")
                out.violation(f"C07/infinite-input/{src}/wrong-elements", {"form": text, "expected": want, "got": got}, {"kind": "iterate", "pipe": []})

    if spec["kind"] == "single":
        inputs = [[]]
        for n in range(1, spec["maxlen"] + 1):
            inputs += [list(t) for t in itertools.product(ELEMS, repeat=n)]
        out.setx("inputs_enumerated", len(inputs))
        idx = 0
        for si, st in enumerate(STAGES):
            for xi, xs in enumerate(inputs):
                idx += 1
                if idx % spec["parts"] != spec["part"]:
                    continue
                # longer inputs: every 3rd for lengths > 3 keeps the quick tier within budget; all in thorough
                check([st], xs)
            if si < 2 and spec["part"] == 0:
                out.sample({"stage": list(st), "xf": xf_text(st), "input": [None, False, 1], "reference": ref_stage(st, [None, False, 1])})
            out.maybe_flush()
        if spec["part"] == 0:
            iterate_check()
    elif spec["kind"] == "pipes":
        for it in range(spec["n"]):
            d = rnd.randint(2, spec["depth"])
            pipe = [rnd.choice(STAGES) for _ in range(d)]
            # cat and mapcat/vector change element shape: keep element-type sensitive stages (number?) total — they are
            xs = [rnd.choice(ELEMS) for _ in range(rnd.randint(0, spec["maxlen"]))]
            check(pipe, xs)
            if it < 2:
                out.sample({"pipeline": "(comp " + " ".join(xf_text(s) for s in pipe) + ")", "input": xs, "reference": ref_pipe(pipe, xs)})
            out.maybe_flush()
    elif spec["kind"] == "termination":
        for it in range(spec["n"]):
            d = rnd.randint(0, 2)
            pre = [rnd.choice([s for s in STAGES if s[0] not in ("take", "drop") or s[1] < 5]) for _ in range(d)]
            last = rnd.choice([("take", 1), ("take", 2), ("take", 5), ("take-while", "some?")])
            base = [rnd.choice(ELEMS) for _ in range(rnd.randint(2, 4))]
            if last[0] == "take-while":
                base = [x for x in base if x is not None] + [None]
            termination(pre + [last], base)
            out.maybe_flush()
