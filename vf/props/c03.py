"""C03 — readable printing round-trips through the reader.

Monitor: for generated values v and print configurations P: s = pr-str v; forms = read s; exactly one form, equal to v
with the same type at every node (harness structural equality), metadata preserved under *print-meta*, printing
deterministic and idempotent (pr-str of the re-read value == s). Also the Python-level pair lrepr/read_str.
"""
from __future__ import annotations

import datetime
import itertools
import math
import random
import re
import struct
import uuid
from decimal import Decimal
from fractions import Fraction

# escape-relevant characters incl. a NON-printable astral one (U+E0001, needs \\UXXXXXXXX) and hex digits (the reader's unicode escapes are greedy)
STR_ALPHABET = ['"', "\\", "\n", "\t", "\x1f", "\x7f", "\u00e9", "\u4e2d", "\U0001f40d", "\U000e0001", "a", "f", "0", " ", "\x00", "\u00a0", "\r"]


def plan(tier, seed):
    q = tier == "quick"
    hs = [0, 1] if q else [0, 1, 2, 3]
    shards = []
    for p in range(4 if q else 8):
        shards.append({"kind": "strings", "maxlen": 3 if q else 4, "part": p, "parts": 4 if q else 8, "alpha": 13 if q else 14, "hashseed": hs[p % len(hs)]})
    shards.append({"kind": "scalars", "hashseed": 0, "nfloat": 6000 if q else 200000})
    for i in range(4 if q else 12):
        shards.append({"kind": "nested", "n": 500 if q else 9000, "hashseed": hs[i % len(hs)]})
    return {
        "level": "exploration",
        "rule": "values of the readable data universe: strings exhaustively to length 3 (thorough 4) over a 12-13 character escape-relevant alphabet; float boundary table plus random bit patterns; "
        "ints, ratios, decimals, imaginary numbers, keywords/symbols, uuids, instants, regex patterns, byte strings; random nested lists/vectors/maps/sets/queues/#py containers to depth 4 with "
        "metadata; x the 8 combinations of *print-dup*/*print-meta*/*print-namespace-maps*, several hash seeds. distinct = distinct (printed text, configuration); non-trivial = every value "
        "(each is printed, re-read, compared node by node and re-printed).",
        "shards": shards,
        "hashseeds": hs,
        "min_evaluations": 5000,
        "watchdog_s": 900 if q else 3400,
        "assumptions": ["Decimals are only required to round-trip with *print-dup* on", "map keys and set members never contain NaN", "reader-attached line/col metadata is removed from the re-read value before metadata comparison and re-printing"],
    }


def float_table():
    fs = [0.0, -0.0, 1.0, -1.0, 0.1, 0.5, 1.5, 1e22, 1e23, 1e21, 1e16, 1e15, 123456789012345680.0, 2.0**53, 2.0**53 + 2, 5e-324, 2.2250738585072014e-308, 1.7976931348623157e308,
          1e-5, 1e-4, 0.0001, 1e-7, 3.14e8, 1e100, 1.5e300, -1e22, -5e-324, 1 / 3, 2 / 3, 1e-10, 123.456, float("inf"), float("-inf"), float("nan")]
    for e in range(-30, 31):
        fs.append(10.0**e)
        fs.append(-3.7 * 10.0**e)
    return fs


def worker(spec, out):
    from vf import boot

    b = boot.init()
    rnd = random.Random(spec["seed"])
    rt = b.runtime
    K, S, V, L, M, SET, Q = b.kw.keyword, b.sym.symbol, b.vec.vector, b.llist.list, b.lmap.map, b.lset.set, b.lqueue.queue
    from basilisp.lang import interfaces as I
    from basilisp.lang.obj import lrepr

    pr_str = b.core("pr-str")
    VAR = {n: b.var("basilisp.core", n) for n in ("*print-dup*", "*print-meta*", "*print-namespace-maps*", "*print-length*", "*print-level*")}
    READER_KEYS = {K("line", ns="basilisp.lang.reader"), K("col", ns="basilisp.lang.reader"), K("end-line", ns="basilisp.lang.reader"), K("end-col", ns="basilisp.lang.reader")}
    PATTERN = type(re.compile(""))

    def pr(v, cfg):
        binds = {VAR["*print-dup*"]: cfg[0], VAR["*print-meta*"]: cfg[1], VAR["*print-namespace-maps*"]: cfg[2], VAR["*print-length*"]: None, VAR["*print-level*"]: None}
        with rt.bindings(M(binds)):
            return pr_str(v)

    def kind(v):
        if v is None:
            return "nil"
        if isinstance(v, bool):
            return "bool"
        if isinstance(v, int):
            return "int"
        if isinstance(v, float):
            return "float"
        if isinstance(v, Fraction):
            return "ratio"
        if isinstance(v, Decimal):
            return "decimal"
        if isinstance(v, complex):
            return "complex"
        if isinstance(v, str):
            return "string"
        if isinstance(v, bytes):
            return "bytes"
        if isinstance(v, b.kw.Keyword):
            return "keyword"
        if isinstance(v, b.sym.Symbol):
            return "symbol"
        if isinstance(v, uuid.UUID):
            return "uuid"
        if isinstance(v, datetime.datetime):
            return "inst"
        if isinstance(v, PATTERN):
            return "regex"
        if isinstance(v, I.IPersistentVector):
            return "vector"
        if isinstance(v, I.IPersistentMap):
            return "map"
        if isinstance(v, I.IPersistentSet):
            return "set"
        if isinstance(v, b.lqueue.PersistentQueue):
            return "queue"
        if isinstance(v, I.IPersistentList) or isinstance(v, I.ISeq):
            return "list"
        if isinstance(v, list):
            return "pylist"
        if isinstance(v, tuple):
            return "pytuple"
        if isinstance(v, dict):
            return "pydict"
        if isinstance(v, (set, frozenset)):
            return "pyset"
        return type(v).__name__

    def clean_meta(m):
        if m is None:
            return None
        for k in READER_KEYS:
            m = m.dissoc(k)
        return m if len(m) else None

    def strip(v):
        """rebuild a re-read value without the reader's own location metadata"""
        k = kind(v)
        if k == "symbol":
            return v.with_meta(clean_meta(v.meta)) if v.meta is not None else v
        if k == "vector":
            return V([strip(x) for x in v]).with_meta(clean_meta(v.meta))
        if k == "list":
            return L([strip(x) for x in v]).with_meta(clean_meta(v.meta))
        if k == "queue":
            return Q([strip(x) for x in v]).with_meta(clean_meta(v.meta))
        if k == "set":
            return SET([strip(x) for x in v]).with_meta(clean_meta(v.meta))
        if k == "map":
            return M({strip(a): strip(c) for a, c in v.items()}).with_meta(clean_meta(v.meta))
        if k == "pylist":
            return [strip(x) for x in v]
        if k == "pytuple":
            return tuple(strip(x) for x in v)
        if k == "pydict":
            return {strip(a): strip(c) for a, c in v.items()}
        if k == "pyset":
            return {strip(x) for x in v}
        return v

    def diff(a, c, check_meta):
        """None if same; else (kind-of-offending-node, failkind)"""
        ka, kc = kind(a), kind(c)
        if ka != kc:
            return (ka, "type")
        if ka == "float":
            if a != a or c != c:
                return None if (a != a and c != c) else (ka, "value")
            if a != c or math.copysign(1, a) != math.copysign(1, c):
                return (ka, "value")
            return None
        if ka == "decimal":
            if a.is_nan() or c.is_nan():
                return None if (a.is_nan() and c.is_nan()) else (ka, "value")
            return None if (a == c and str(a) == str(c)) else (ka, "value")
        if ka == "complex":
            ok = (a == c or (a != a and c != c)) and math.copysign(1, a.real) == math.copysign(1, c.real) and math.copysign(1, a.imag) == math.copysign(1, c.imag)
            return None if ok else (ka, "value")
        if ka == "regex":
            return None if (a.pattern == c.pattern and a.flags == c.flags) else (ka, "value")
        if ka in ("vector", "list", "queue", "pylist", "pytuple"):
            la, lc = list(a), list(c)
            if len(la) != len(lc):
                return (ka, "value")
            for x, y in zip(la, lc):
                d = diff(x, y, check_meta)
                if d:
                    return d
        elif ka in ("set", "pyset"):
            if len(a) != len(c):
                return (ka, "value")
            for x in a:
                if x not in c:
                    return (kind(x) if kind(x) not in ("int", "keyword") else ka, "value")
                y = next(t for t in c if t == x)
                d = diff(x, y, check_meta)
                if d:
                    return d
        elif ka in ("map", "pydict"):
            if len(a) != len(c):
                return (ka, "value")
            for kx, vx in a.items():
                if kx not in c:
                    return (kind(kx) if kind(kx) not in ("int", "keyword") else ka, "value")
                ky = next(t for t in c.keys() if t == kx)
                d = diff(kx, ky, check_meta) or diff(vx, c[kx] if ka == "pydict" else c.val_at(kx), check_meta)
                if d:
                    return d
        else:
            if a != c:
                return (ka, "value")
        if check_meta and ka in ("vector", "list", "queue", "set", "map", "symbol"):
            ma, mc = clean_meta(getattr(a, "meta", None)), clean_meta(getattr(c, "meta", None))
            if (ma is None) != (mc is None) or (ma is not None and diff(ma, mc, False)):
                return (ka, "meta-lost", "node %s: metadata %r became %r" % (repr(a)[:60], ma, mc))
        return None

    def leaves(v, acc):
        k = kind(v)
        if k in ("vector", "list", "queue", "set", "pylist", "pytuple", "pyset"):
            for x in v:
                leaves(x, acc)
        elif k in ("map", "pydict"):
            for a, c in v.items():
                leaves(a, acc)
                leaves(c, acc)
        else:
            acc.append(v)
        return acc

    def has_decimal(v):
        return any(kind(x) == "decimal" for x in leaves(v, []))

    def reprint_ok(v, cfg):
        try:
            s = pr(v, cfg)
            f = b.read_all(s)
            return len(f) == 1 and pr(strip(f[0]), cfg) == s
        except Exception:
            return True  # a different failure, reported elsewhere

    def reprint_culprit(v, cfg):
        """kind of the smallest sub-value whose own print/read/print cycle is not idempotent"""
        k = kind(v)
        kids_ = []
        if k in ("vector", "list", "queue", "set", "pylist", "pytuple", "pyset"):
            kids_ = list(v)
        elif k in ("map", "pydict"):
            for a, c in v.items():
                kids_ += [a, c]
        for c in kids_:
            if not reprint_ok(c, cfg):
                return reprint_culprit(c, cfg)
        return k

    def check(v, cfg, desc, depth=0):
        dup, meta, nsm = cfg
        case = {"kind": "value", "desc": desc, "cfg": list(cfg)}
        if desc.startswith("rvalue(seed="):
            case["rseed"] = int(desc[12:-1])
        else:
            case["evaluable"] = True
        try:
            s = pr(v, cfg)
        except Exception as e:
            out.ev(None)
            out.violation(f"C03/{kind(v)}/print-raises/{type(e).__name__}", {"desc": desc, "cfg": cfg, "exc": repr(e)[:200]}, case)
            return
        out.ev((s, cfg))
        out.count("cfg_%d%d%d" % (int(bool(dup)), int(bool(meta)), int(bool(nsm))))
        s_again = pr(v, cfg)
        if s_again != s:
            out.violation(f"C03/{kind(v)}/nondeterministic", {"first": s, "second": s_again}, case)
            return
        def fail(k, fk, extra):
            w = {"printed": s, "cfg": {"print-dup": dup, "print-meta": meta, "print-namespace-maps": nsm}, "desc": desc}
            w.update(extra)
            out.violation(f"C03/{k}/{fk}", w, case)
        try:
            forms = b.read_all(s)
        except Exception as e:
            # attribute to the leaf kind that fails on its own
            culprit = None
            if depth == 0:
                for lf in leaves(v, []):
                    try:
                        b.read_all(pr(lf, cfg))
                    except Exception:
                        culprit = kind(lf)
                        break
            ck = culprit or kind(v)
            if ck == "regex" and any(kind(x) == "regex" and '"' in x.pattern for x in leaves(v, [])):
                ck = "regex-with-quote"
            fail(ck, "read-error/" + type(e).__name__, {"exc": str(e)[:160]})
            return
        if len(forms) != 1:
            culprit = None
            for lf in leaves(v, []):
                try:
                    if len(b.read_all(pr(lf, cfg))) != 1:
                        culprit = kind(lf)
                        break
                except Exception:
                    pass
            fail(culprit or kind(v), "count", {"forms": len(forms)})
            return
        back = forms[0]
        d = diff(v, back, check_meta=bool(meta))
        if d:
            k0 = d[0]
            if k0 in ("decimal", "complex"):
                bad = [x for x in leaves(v, []) if kind(x) == k0 and ((k0 == "decimal" and not x.is_finite()) or (k0 == "complex" and not (math.isfinite(x.real) and math.isfinite(x.imag))))]
                if bad:
                    k0 = k0 + "-nonfinite"
            if k0 == "regex" and d[1] == "value":
                # the printer runs regex patterns through the unicode_escape codec (pinned by the repository's own tests)
                if any(kind(x) == "regex" and x.pattern.encode("unicode_escape").decode("ascii") != x.pattern for x in leaves(v, [])):
                    k0 = "regex-unicode-escaped"
            fail(k0, d[1], {"reread": repr(back)[:200], "detail": list(d[2:])})
            return
        try:
            s2 = pr(strip(back), cfg)
        except Exception as e:
            fail(kind(v), "reprint-raises", {"exc": repr(e)[:160]})
            return
        if s2 != s:
            culprit = reprint_culprit(v, cfg)
            if culprit in ("pydict", "pyset"):
                fail("py-unordered", "reprint-order", {"reprinted": s2, "culprit": culprit})
            else:
                fail(culprit, "reprint", {"reprinted": s2})
        # python-level pair
        try:
            s3 = lrepr(v, print_dup=dup, print_meta=meta, print_namespace_maps=nsm, print_length=None, print_level=None)
            f3 = list(b.reader.read_str(s3))
            if len(f3) != 1 or diff(v, f3[0], bool(meta)):
                fail(kind(v), "lrepr-readstr", {"lrepr": s3})
        except Exception as e:
            fail(kind(v), "lrepr-readstr", {"exc": repr(e)[:160]})

    CFGS = list(itertools.product([False, True], repeat=3))

    def check_all_cfgs(v, desc, cfgs=None):
        for cfg in cfgs or CFGS:
            if not cfg[0] and has_decimal(v):
                continue
            check(v, cfg, desc)

    # ---- generators --------------------------------------------------------------------------------------------
    def rfloat():
        t = rnd.random()
        if t < 0.5:
            bits = rnd.getrandbits(64)
            f = struct.unpack("<d", struct.pack("<Q", bits))[0]
            return f
        if t < 0.8:
            return rnd.uniform(-1e6, 1e6)
        return rnd.choice(float_table())

    def rstr():
        return "".join(rnd.choice(STR_ALPHABET + list("abcxyz 019")) for _ in range(rnd.randint(0, 6)))

    NAMES = ["a", "b", "foo", "a-b", "x?", "*y*", "+", "->", "a.b", "é", "ns1", "k1", "<=", "a1", "_", "q'"]

    def rkw():
        return K(rnd.choice(NAMES), ns=rnd.choice([None, None, "a", "ns.b", "é"]))

    def rsym():
        return S(rnd.choice(NAMES), ns=rnd.choice([None, None, "a", "ns.b"]))

    def rscalar(hashable=False):
        t = rnd.random()
        if t < 0.1:
            return None
        if t < 0.18:
            return rnd.random() < 0.5
        if t < 0.3:
            return rnd.choice([0, 1, -1, 7, 2**31, -(2**63), 10**40, rnd.getrandbits(70)])
        if t < 0.42:
            f = rfloat()
            if hashable and f != f:
                return 1.5
            return f
        if t < 0.48:
            fr = Fraction(rnd.randint(-50, 50), rnd.randint(1, 30))
            return fr if fr.denominator != 1 else Fraction(1, 3)
        if t < 0.54:
            return Decimal(rnd.choice(["0", "1.5", "-2.50", "1E+3", "0.001", "123456789.123456789", "1e-10"]))
        if t < 0.58:
            return complex(0, rnd.choice([1.5, 2.0, 0.25, 3.0, 100.0]))
        if t < 0.72:
            return rstr()
        if t < 0.8:
            return rkw()
        if t < 0.86:
            return rsym()
        if t < 0.89:
            return uuid.UUID(int=rnd.getrandbits(128))
        if t < 0.92:
            return datetime.datetime(rnd.randint(1970, 2100), rnd.randint(1, 12), rnd.randint(1, 28), rnd.randint(0, 23), rnd.randint(0, 59), rnd.randint(0, 59), rnd.choice([0, 123456]), tzinfo=datetime.timezone.utc)
        if t < 0.95:
            if hashable:
                return rstr()
            return re.compile(rnd.choice(["a+", r"\d+", r"[a-z]*\s", "x|y", r"\\", r"\.", "é+", r"(?i)q", r"a{2,3}", ""]))
        return bytes(rnd.choice([b"", b"abc", b"\x00\xff", b"a\\b", b"it's", b"\n\t"]))

    def rmeta():
        if rnd.random() < 0.25:
            return M({K(rnd.choice(["m", "doc", "tag"])): rnd.choice([True, 1, "s", K("v")])})
        return None

    def rvalue(d, hashable=False):
        t = rnd.random()
        if d <= 0 or t < 0.35:
            v = rscalar(hashable)
            if kind(v) == "symbol" and rnd.random() < 0.2:
                v = v.with_meta(rmeta())
            return v
        n = rnd.randint(0, 4)
        if t < 0.5:
            return V([rvalue(d - 1, hashable) for _ in range(n)]).with_meta(rmeta())
        if t < 0.6:
            return L([rvalue(d - 1, hashable) for _ in range(n)]).with_meta(rmeta())
        if t < 0.75:
            if rnd.random() < 0.3:
                nsn = rnd.choice(["a", "ns.b"])
                return M({K(rnd.choice(NAMES), ns=nsn): rvalue(d - 1, hashable) for _ in range(n)}).with_meta(rmeta())
            return M({rvalue(d - 1, True): rvalue(d - 1, hashable) for _ in range(n)}).with_meta(rmeta())
        if t < 0.83:
            return SET([rvalue(d - 1, True) for _ in range(n)]).with_meta(rmeta())
        if t < 0.88:
            return Q([rvalue(d - 1, hashable) for _ in range(n)])
        if hashable:
            return tuple(rvalue(d - 1, True) for _ in range(n))
        if t < 0.92:
            return [rvalue(d - 1) for _ in range(n)]
        if t < 0.95:
            return tuple(rvalue(d - 1, hashable) for _ in range(n))
        if t < 0.98:
            return {rvalue(0, True): rvalue(d - 1) for _ in range(n)}
        return {rvalue(0, True) for _ in range(n)}

    if "replay" in spec:
        c = spec["replay"]
        v = eval(c["desc"], {"Decimal": Decimal, "Fraction": Fraction, "K": K, "S": S, "V": V, "L": L, "M": M, "SET": SET, "Q": Q, "uuid": uuid, "datetime": datetime, "re": re, "nan": float("nan"), "inf": float("inf")}) if c.get("evaluable") else None
        if v is None and "rseed" in c:
            rnd.seed(c["rseed"])
            v = rvalue(4)
        if v is not None or c.get("evaluable"):
            check(v, tuple(c["cfg"]), c["desc"])
        return

    kind_ = spec["kind"]
    if kind_ == "strings":
        alpha = STR_ALPHABET[: spec["alpha"]]
        allstr = [""]
        for n in range(1, spec["maxlen"] + 1):
            allstr += ["".join(t) for t in itertools.product(alpha, repeat=n)]
        out.setx("strings_enumerated", len(allstr))
        for i in range(spec["part"], len(allstr), spec["parts"]):
            s = allstr[i]
            cfg = CFGS[i % 8]
            for cf in (cfg, CFGS[(i + 3) % 8]):
                case_desc = repr(s)
                check(s, cf, case_desc)
                out.viol_per_key  # noqa
            if i < 6:
                out.sample({"string": s, "printed": pr(s, cfg)})
        # strings inside collections and as map keys
        for _ in range(300):
            s = "".join(rnd.choice(alpha) for _ in range(rnd.randint(0, 5)))
            check(V([s, K("k")]), CFGS[rnd.randrange(8)], "V([%r, K('k')])" % s)
            check(M({s: s}), CFGS[rnd.randrange(8)], "M({%r: %r})" % (s, s))
    elif kind_ == "scalars":
        for f in float_table():
            check_all_cfgs(f, repr(f) if f == f and abs(f) != float("inf") else ("nan" if f != f else ("inf" if f > 0 else "-inf")), CFGS[:2] + CFGS[4:6])
        for _ in range(spec["nfloat"]):
            f = rfloat()
            check(f, CFGS[rnd.randrange(8)], repr(f) if f == f and abs(f) != float("inf") else ("nan" if f != f else ("inf" if f > 0 else "-inf")))
        ints = [0, 1, -1, 9, 10, 2**31 - 1, 2**31, 2**63, -(2**63) - 1, 10**40, -(10**40), 0o17, 255]
        for n in ints:
            check_all_cfgs(n, repr(n))
        for fr in [Fraction(1, 2), Fraction(-1, 2), Fraction(22, 7), Fraction(10**30, 3), Fraction(-7, 10**20)]:
            check_all_cfgs(fr, repr(fr))
        for dstr in ["0", "1.5", "-1.50", "1E+3", "1E-7", "0.1", "123456789012345678901234567890.123", "-0", "NaN", "Infinity", "-Infinity", "1.0E+10"]:
            check_all_cfgs(Decimal(dstr), "Decimal(%r)" % dstr)
        for im in [1.0, 2.5, 0.0, 100.0, 1e22, 1e-7, -2.5, float("inf")]:
            check_all_cfgs(complex(0, im), "complex(0, %r)" % im if abs(im) != float("inf") else "complex(0, inf)")
        for nm in NAMES:
            for nsn in [None, "a", "ns.b", "é"]:
                check_all_cfgs(K(nm, ns=nsn), "K(%r, ns=%r)" % (nm, nsn))
                check_all_cfgs(S(nm, ns=nsn), "S(%r, ns=%r)" % (nm, nsn))
        for u in [uuid.UUID(int=0), uuid.UUID(int=2**128 - 1), uuid.UUID("12345678-1234-5678-1234-567812345678")]:
            check_all_cfgs(u, "uuid.UUID(%r)" % str(u))
        tz = datetime.timezone
        for dt in [datetime.datetime(1970, 1, 1, tzinfo=tz.utc), datetime.datetime(2024, 2, 29, 23, 59, 59, 999999, tzinfo=tz.utc), datetime.datetime(2000, 6, 1, 12, 0, 0, tzinfo=tz(datetime.timedelta(hours=5, minutes=30))),
                   datetime.datetime(1999, 12, 31, 1, 2, 3, 500000, tzinfo=tz(datetime.timedelta(hours=-8)))]:
            check_all_cfgs(dt, "datetime.datetime(%d, %d, %d, %d, %d, %d, %d, tzinfo=datetime.timezone(datetime.timedelta(seconds=%d)))" % (dt.year, dt.month, dt.day, dt.hour, dt.minute, dt.second, dt.microsecond, int(dt.utcoffset().total_seconds())))
        for pat in ["", "a+", r"\d+", r"\\", r"\.", r"[\"]", 'a"b', "é", r"\s*(x|y){2,3}$", "a\nb", r"(?i)abc", r"é"]:
            check_all_cfgs(re.compile(pat), "re.compile(%r)" % pat)
        for bs in [b"", b"abc", b"\x00\x01\xfe\xff", b'a"b', b"a\\b", b"it's", b"both'\"", b"\n\r\t", bytes(range(256))]:
            check_all_cfgs(bs, repr(bs))
        for v, dsc in [(True, "True"), (False, "False"), (None, "None"), (V([]), "V([])"), (L([]), "L([])"), (M({}), "M({})"), (SET([]), "SET([])"), (Q([]), "Q([])"), ([], "[]"), ((), "()"), ({}, "{}"), (set(), "set()")]:
            check_all_cfgs(v, dsc)
        out.sample({"float": "1e22", "printed": pr(1e22, CFGS[0])})
    elif kind_ == "nested":
        for it in range(spec["n"]):
            rs = rnd.getrandbits(48)
            st = rnd.getstate()
            rnd.seed(rs)
            v = rvalue(4)
            rnd.setstate(st)
            cfg = CFGS[it % 8]
            if not cfg[0] and has_decimal(v):
                cfg = (True, cfg[1], cfg[2])
            dup, meta, nsm = cfg
            # like check(), but replayable through the generator seed
            before = dict(out.viol_per_key)
            check(v, cfg, "rvalue(seed=%d)" % rs)
            if it < 3:
                try:
                    out.sample({"printed": pr(v, cfg), "cfg": cfg})
                except Exception:
                    pass
            out.maybe_flush()
