"""C17 — compare is a consistent total order per family; sort returns the ordered, stable permutation.

Monitor: relational laws over all pairs/triples of each family (antisymmetry, transitivity, zero<=>equal, nil lowest,
(ns,name) lexicographic order, value order vs an independent reference for numbers/strings), and for sort/sort-by:
permutation (multiset), ordered by the comparator, stable for ties, independent of input order for distinct elements.
"""
from __future__ import annotations

import itertools
import random
from decimal import Decimal
from fractions import Fraction


def plan(tier, seed):
    q = tier == "quick"
    shards = [
        {"kind": "laws"},
        {"kind": "sortperm", "perm_n": 6 if q else 7, "fam_part": 0, "fam_parts": 2},
        {"kind": "sortperm", "perm_n": 6 if q else 7, "fam_part": 1, "fam_parts": 2},
    ]
    nr = 2 if q else 12
    for i in range(nr):
        shards.append({"kind": "sortrand", "n": 600 if q else 40000})
    if not q:
        for i in range(13):
            shards.append({"kind": "laws", "random_only": True, "reps": 1500})
    return {
        "level": "exploration",
        "exhaustive": True,
        "rule": "exhaustive: all ordered pairs and triples of a 12-14 element universe per family (numbers, strings, keywords, symbols, "
        "vectors of numbers/keywords/strings/vectors, each also against nil), all permutations of 6 (thorough: 7) distinct elements per family for sort; "
        "random lists up to length 200 with ties for stability. distinct = distinct (law, family, tuple) or (sort form, input list); "
        "non-trivial = tuples with at least two different elements / lists of length >= 2.",
        "shards": shards,
        "min_evaluations": 5000,
        "watchdog_s": 900 if q else 3000,
        "assumptions": ["the relative order of namespaced vs un-namespaced idents is not prescribed (only consistency)", "NaN is excluded from order laws", "vectors: only the order laws are judged, not a particular order"],
    }


def sgn(x):
    return (x > 0) - (x < 0)


def families(b):
    K, S, V = b.kw.keyword, b.sym.symbol, b.vec.v
    nums = [0, 1, -1, 2, 1.0, 0.5, Fraction(1, 2), Decimal("0.5"), 10**30, 2**53 + 1, float(2**53), -2.5, Decimal("-2.5"), Fraction(-7, 3)]
    strs = ["", "a", "A", "b", "aa", "ab", "é", "a b", "10", "9", "Z", "á"]
    names = ["a", "b", "c"]
    kws = [K(n) for n in names] + [K(n, ns=s) for s in names for n in names]
    syms = [S(n) for n in names] + [S(n, ns=s) for s in names for n in names]
    vnum = [V(), V(1), V(2), V(1, 2), V(1, 3), V(2, 1), V(1, 2, 3), V(0.5), V(Fraction(1, 2)), V(None), V(1, None), V(None, 1), V(2, 0), V(None, 2), V(None, None), V(1, None, 2), V(1, None, 3), V(None, None, 1)]
    vkw = [V(K("b", ns="a")), V(K("a", ns="b")), V(K("b", ns="a"), K("a", ns="b")), V(K("a", ns="b"), K("b", ns="a")), V(K("a")), V(K("b")), V(K("a"), K("b")),
           V(K("b"), K("a")), V(K("a", ns="a")), V(K("a", ns="a"), K("a")), V(K("c", ns="a"), K("a", ns="c")), V(K("a", ns="c"), K("c", ns="a"))]
    vstr = [V(), V(""), V("a"), V("b"), V("a", "b"), V("b", "a"), V("a", "a"), V("A"), V("a", None), V(None, "a"), V("ab"), V("a", "b", "c"), V(None, "b"), V(None, None), V("a", None, "a"), V("a", None, "b")]
    vvec = [V(), V(V()), V(V(1)), V(V(2)), V(V(1), V(2)), V(V(2), V(1)), V(V(1, 2)), V(V(1), V(1)), V(V(None)), V(V(1, 2), V(0)), V(V(0), V(1, 2)), V(V(K("a")))]
    vvec = vvec[:-1]
    return {"num": nums, "str": strs, "kw": kws, "sym": syms, "vec-num": vnum, "vec-kw": vkw, "vec-str": vstr, "vec-vec": vvec}


def ident_ref(x, y):
    """reference order for two idents that are both namespaced or both plain; None when not prescribed"""
    if (x.ns is None) != (y.ns is None):
        return None
    a = (x.ns or "", x.name)
    c = (y.ns or "", y.name)
    return (a > c) - (a < c)


def worker(spec, out):
    from vf import boot

    b = boot.init()
    rnd = random.Random(spec["seed"])
    compare = b.core("compare")
    eq = b.core("=")
    sort = b.core("sort")
    sort_by = b.core("sort-by")
    pr = b.core("pr-str")
    fams = families(b)

    _pc = {}

    def P(v):
        k = id(v)
        hit = _pc.get(k)
        if hit is not None and hit[0] is v:
            return hit[1]
        try:
            r = pr(v)
        except Exception:
            r = repr(v)
        if len(_pc) < 200000:
            _pc[k] = (v, r)
        return r

    def cmp(x, y):
        try:
            return ("v", sgn(compare(x, y)))
        except Exception as e:
            return ("x", type(e).__name__)

    def laws(fam, elems, case_extra=None):
        elems = list(elems)
        n = len(elems)
        C = {}
        for i in range(n):
            for j in range(n):
                C[i, j] = cmp(elems[i], elems[j])
        def case(*idx):
            return {"kind": "laws", "family": fam, "elems": [P(elems[i]) for i in idx]}
        raised = False
        for i in range(n):
            for j in range(n):
                x, y = elems[i], elems[j]
                out.ev(("pair", fam, i, j) if i != j else None)
                r = C[i, j]
                if r[0] == "x":
                    raised = True
                    out.violation(f"C17/raises/{fam}/{r[1]}", {"x": P(x), "y": P(y), "exc": r[1]}, case(i, j))
                    continue
                if C[j, i][0] == "x":
                    continue
                if r[1] != -C[j, i][1]:
                    out.violation(f"C17/antisymmetry/{fam}", {"x": P(x), "y": P(y), "cmp_xy": r[1], "cmp_yx": C[j, i][1]}, case(i, j))
                e = bool(eq(x, y))
                if (r[1] == 0) != e:
                    out.violation(f"C17/zero-iff-equal/{fam}", {"x": P(x), "y": P(y), "compare": r[1], "=": e}, case(i, j))
                if fam in ("kw", "sym"):
                    ref = ident_ref(x, y)
                    if ref is not None and ref != r[1]:
                        out.violation(f"C17/ns-name-order/{fam}", {"x": P(x), "y": P(y), "expected": ref, "got": r[1]}, case(i, j))
                elif fam == "num":
                    fx, fy = Fraction(x), Fraction(y)
                    ref = (fx > fy) - (fx < fy)
                    if ref != r[1]:
                        out.violation("C17/value-order/num", {"x": P(x), "y": P(y), "expected": ref, "got": r[1]}, case(i, j))
                elif fam == "str":
                    ref = (x > y) - (x < y)
                    if ref != r[1]:
                        out.violation("C17/value-order/str", {"x": P(x), "y": P(y), "expected": ref, "got": r[1]}, case(i, j))
        for i in range(n):
            x = elems[i]
            out.ev(("nil", fam, i))
            a, c = cmp(None, x), cmp(x, None)
            if a != ("v", -1) or c != ("v", 1):
                out.violation(f"C17/nil-lowest/{fam}", {"x": P(x), "cmp_nil_x": a, "cmp_x_nil": c}, {"kind": "nil", "family": fam, "elems": [P(x)]})
        out.ev(("nilnil",))
        if cmp(None, None) != ("v", 0):
            out.violation("C17/nil-lowest/nil-nil", {"got": cmp(None, None)}, {"kind": "nil", "family": fam, "elems": []})
        for i, j, k in itertools.product(range(n), repeat=3):
            out.ev(("triple", fam, i, j, k) if len({i, j, k}) == 3 else None)
            a, c, d = C[i, j], C[j, k], C[i, k]
            if "x" in (a[0], c[0], d[0]):
                continue
            if a[1] <= 0 and c[1] <= 0 and not d[1] <= 0:
                out.violation(f"C17/transitivity/{fam}", {"x": P(elems[i]), "y": P(elems[j]), "z": P(elems[k]), "xy": a[1], "yz": c[1], "xz": d[1]}, case(i, j, k))
            if a[1] == 0 and c[1] != d[1]:
                out.violation(f"C17/transitivity/{fam}", {"x": P(elems[i]), "y": P(elems[j]), "z": P(elems[k]), "xy": 0, "yz": c[1], "xz": d[1], "note": "x~y but they order differently against z"}, case(i, j, k))
        return raised

    def safe_sorted_check(fam, form, inp, got, cmpf, stable_key=None):
        """got: python list result; cmpf(a, b)->sign or raises"""
        case = {"kind": "sort", "family": fam, "form": form, "input": [P(v) for v in inp]}
        # permutation (multiset by identity-insensitive printed form + type)
        ms = lambda xs: sorted((type(v).__name__, P(v)) for v in xs)
        if ms(got) != ms(inp):
            out.violation(f"C17/sort/not-permutation/{form}", {"input": [P(v) for v in inp], "output": [P(v) for v in got]}, case)
            return False
        for a, c in zip(got, got[1:]):
            try:
                s = cmpf(a, c)
            except Exception:
                continue
            if s > 0:
                out.violation(f"C17/sort/not-ordered/{form}/{fam}", {"input": [P(v) for v in inp], "output": [P(v) for v in got], "pair": [P(a), P(c)]}, case)
                return False
        return True

    def run_sort(form, inp):
        """returns python list or raises"""
        v = b.vec.vector(inp)
        if form == "sort":
            r = sort(v)
        elif form == "sort-compare":
            r = sort(compare, v)
        elif form == "sort-3way-rev":
            r = sort(lambda a, c: compare(c, a), v)
        elif form == "sort-lt":
            r = sort(b.core("<"), v)
        elif form == "sort-gt":
            r = sort(b.core(">"), v)
        elif form == "sort-by-identity":
            r = sort_by(b.core("identity"), v)
        elif form == "sort-by-neg":
            r = sort_by(b.core("-"), v)
        else:
            raise KeyError(form)
        return list(r) if r is not None else []

    def cmpf_for(form):
        if form in ("sort", "sort-compare", "sort-by-identity"):
            return lambda a, c: sgn(compare(a, c))
        if form in ("sort-3way-rev", "sort-gt"):
            return lambda a, c: sgn(compare(c, a))
        if form == "sort-lt":
            return lambda a, c: sgn(compare(a, c))
        if form == "sort-by-neg":
            return lambda a, c: sgn(compare(-a, -c))

    def check_perms(fam, elems, forms):
        base = {}
        raised = None
        for perm in itertools.permutations(elems):
            inp = list(perm)
            for form in forms:
                out.ev(("perm", fam, form, tuple(P(v) for v in inp)))
                try:
                    got = run_sort(form, inp)
                except Exception as e:
                    raised = type(e).__name__
                    out.violation(f"C17/sort/raises/{fam}/{raised}", {"input": [P(v) for v in inp], "form": form, "exc": repr(e)[:200]}, {"kind": "sort", "family": fam, "form": form, "input": [P(v) for v in inp]})
                    return
                if not safe_sorted_check(fam, form, inp, got, cmpf_for(form)):
                    return
                key = [P(v) for v in got]
                if form not in base:
                    base[form] = (key, [P(v) for v in inp])
                elif base[form][0] != key:
                    out.violation(f"C17/sort/input-order-dependent/{fam}", {"form": form, "input_a": base[form][1], "output_a": base[form][0], "input_b": [P(v) for v in inp], "output_b": key}, {"kind": "sort", "family": fam, "form": form, "input": [P(v) for v in inp]})
                    return

    def distinct_subset(fam, elems, n):
        # choose n pairwise non-equal elements (by basilisp =) that do not make compare raise
        chosen = []
        for e in elems:
            ok = True
            for c in chosen:
                r = cmp(e, c)
                if r[0] == "x" or r[1] == 0 or bool(eq(e, c)):
                    ok = False
                    break
            if ok:
                chosen.append(e)
            if len(chosen) == n:
                break
        return chosen

    def parse_elems(case):
        return [b.read_all(t)[0] if t != "nil" else None for t in case["elems"]] if "elems" in case else [b.read_all(t)[0] if t != "nil" else None for t in case["input"]]

    if "replay" in spec:
        c = spec["replay"]
        if c["kind"] in ("laws", "nil"):
            laws(c["family"], parse_elems(c))
        else:
            inp = parse_elems(c)
            got = run_sort(c["form"], inp)
            safe_sorted_check(c["family"], c["form"], inp, got, cmpf_for(c["form"]))
            # input-order dependence: all permutations if small
            if len(inp) <= 7:
                check_perms(c["family"], inp, [c["form"]])
        return

    kind = spec["kind"]
    if kind == "laws":
        for fam, elems in ({} if spec.get("random_only") else fams).items():
            laws(fam, elems)
            out.sample({"family": fam, "elements": [P(e) for e in elems]})
        # second generation: random same-family universes drawn from generators (wider names / values)
        K, S = b.kw.keyword, b.sym.symbol
        for rep in range(spec.get("reps", 6 if spec["tier"] == "quick" else 60)):
            pool = [rnd.choice(["a", "b", "ab", "ba", "z", "a.b", "b.a", "A", "a-b"]) for _ in range(6)]
            ks = list({(n, s) for n in pool[:4] for s in pool[2:] + [None]})
            rnd.shuffle(ks)
            ks = ks[:10]
            laws("kw", [K(n, ns=s) for n, s in ks])
            laws("sym", [S(n, ns=s) for n, s in ks])
            nums = []
            for _ in range(10):
                t = rnd.random()
                v = rnd.randint(-5, 5) if t < 0.3 else (rnd.randint(-20, 20) / 4 if t < 0.5 else (Fraction(rnd.randint(-9, 9), rnd.randint(1, 5)) if t < 0.7 else (Decimal(rnd.randint(-30, 30)) / 4 if t < 0.85 else rnd.getrandbits(80))))
                if isinstance(v, Fraction) and v.denominator == 1:
                    v = v.numerator
                nums.append(v)
            laws("num", nums)
            vs = [b.vec.vector([rnd.choice([0, 1, 2, 0.5, Fraction(1, 2), None, None]) for _ in range(rnd.randint(0, 3))]) for _ in range(9)]
            laws("vec-num", vs)
            vk = [b.vec.vector([(None if rnd.random() < 0.2 else K(rnd.choice("ab"), ns=rnd.choice(["a", "b", None]))) for _ in range(rnd.randint(0, 3))]) for _ in range(9)]
            laws("vec-kw", vk)
            if spec.get("random_only"):
                ss = ["".join(rnd.choice("abAB\u00e9 \U0001F600z0") for _ in range(rnd.randint(0, 4))) for _ in range(10)]
                laws("str", ss)
                laws("vec-str", [b.vec.vector([rnd.choice(ss[:4] + [None]) for _ in range(rnd.randint(0, 3))]) for _ in range(9)])
                laws("vec-vec", [b.vec.vector([rnd.choice(vs[:5]) for _ in range(rnd.randint(0, 3))]) for _ in range(9)])
                out.maybe_flush()
    elif kind == "sortperm":
        names = sorted(fams)
        for fam in names[spec["fam_part"]::spec["fam_parts"]]:
            src = list(fams[fam])
            if fam in ("kw", "sym"):
                # prefer namespaced elements whose namespace order and name order disagree
                src = [e for e in src if e.ns is not None and e.ns != e.name][::-1] + [e for e in src if e.ns is None]
            elems = distinct_subset(fam, src, spec["perm_n"])
            forms = ["sort", "sort-compare", "sort-3way-rev", "sort-by-identity"]
            if fam == "num":
                forms += ["sort-lt", "sort-gt", "sort-by-neg"]
            out.sample({"family": fam, "permuted_elements": [P(e) for e in elems], "forms": forms})
            check_perms(fam, elems, forms)
    elif kind == "sortrand":
        K = b.kw.keyword
        for it in range(spec["n"]):
            n = rnd.choice([0, 1, 2, 3, 5, 8, 17, 33, 64, 200])
            t = rnd.random()
            if t < 0.4:
                fam = "num"
                inp = [rnd.choice([rnd.randint(-5, 5), rnd.randint(-5, 5) * 1.0, Fraction(rnd.randint(-10, 10), 2), Decimal(rnd.randint(-10, 10)) / 2]) for _ in range(n)]
                inp = [v.numerator if isinstance(v, Fraction) and v.denominator == 1 else v for v in inp]
                forms = ["sort", "sort-lt", "sort-gt", "sort-3way-rev", "sort-by-neg"]
            elif t < 0.6:
                fam = "str"
                inp = ["".join(rnd.choice("abABé ") for _ in range(rnd.randint(0, 3))) for _ in range(n)]
                forms = ["sort", "sort-3way-rev"]
            elif t < 0.8:
                fam = "kw"
                inp = [K(rnd.choice("abc"), ns=rnd.choice(["a", "b", "c"])) for _ in range(n)]
                forms = ["sort", "sort-3way-rev"]
            else:
                fam = "vec-num"
                inp = [b.vec.vector([rnd.randint(0, 2) for _ in range(rnd.randint(0, 3))]) for _ in range(n)]
                forms = ["sort", "sort-3way-rev"]
            form = rnd.choice(forms)
            out.ev(("rand", fam, form, tuple(P(v) for v in inp)) if n >= 2 else None)
            try:
                got = run_sort(form, inp)
            except Exception as e:
                out.violation(f"C17/sort/raises/{fam}/{type(e).__name__}", {"input": [P(v) for v in inp], "form": form, "exc": repr(e)[:200]}, {"kind": "sort", "family": fam, "form": form, "input": [P(v) for v in inp]})
                continue
            safe_sorted_check(fam, form, inp, got, cmpf_for(form))
            # stability: tag each element with its input index, sort-by first with the same comparator direction
            tagged = [b.vec.v(v, i) for i, v in enumerate(inp)]
            try:
                if form in ("sort-3way-rev", "sort-gt"):
                    res = list(sort_by(b.core("first"), (lambda a, c: compare(c, a)), b.vec.vector(tagged)) or [])
                    cf = lambda a, c: sgn(compare(c, a))
                else:
                    res = list(sort_by(b.core("first"), b.vec.vector(tagged)) or [])
                    cf = lambda a, c: sgn(compare(a, c))
            except Exception as e:
                out.violation(f"C17/sort-by/raises/{fam}/{type(e).__name__}", {"input": [P(v) for v in inp], "exc": repr(e)[:200]}, {"kind": "sort", "family": fam, "form": "sort-by-identity", "input": [P(v) for v in inp]})
                continue
            out.ev(("stab", fam, form, tuple(P(v) for v in inp)) if n >= 2 else None)
            if sorted(t[1] for t in res) != list(range(n)):
                out.violation("C17/sort/not-permutation/sort-by-first", {"input": [P(v) for v in inp], "output": [P(v) for v in res]}, {"kind": "sort", "family": fam, "form": "sort-by-identity", "input": [P(v) for v in inp]})
                continue
            for a, c in zip(res, res[1:]):
                s = cf(a[0], c[0])
                if s > 0:
                    out.violation(f"C17/sort/not-ordered/sort-by-first/{fam}", {"input": [P(v) for v in inp], "output": [P(v) for v in res]}, {"kind": "sort", "family": fam, "form": "sort-by-identity", "input": [P(v) for v in inp]})
                    break
                if s == 0 and a[1] > c[1]:
                    out.count("ties_checked")
                    out.violation(f"C17/sort/unstable/{fam}", {"input": [P(v) for v in inp], "output": [P(v) for v in res], "tie": [P(a), P(c)]}, {"kind": "sort", "family": fam, "form": "sort-by-identity", "input": [P(v) for v in inp]})
                    break
                if s == 0:
                    out.count("ties_checked")
            if it < 3:
                out.sample({"family": fam, "form": form, "input": [P(v) for v in inp][:12]})
