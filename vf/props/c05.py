"""C05 — equality is an equivalence that hashing and lookup respect.

Monitor: relational laws over all pairs/triples of a universe built from construction recipes. The structural
oracle (`model`) is computed from the recipe, never by calling basilisp's `=`.
"""
from __future__ import annotations

import itertools
import random
from decimal import Decimal
from fractions import Fraction

# ---- recipes: (name, kind, payload) ; model derived from payload -------------------------------------------------
SEQ_REPS = ["vector", "list", "cons", "lazyseq", "mapped", "queue"]


def scalar_recipes():
    return [
        ("1", "num", 1), ("1.0", "num", 1.0), ("1M", "num", Decimal(1)), ("2", "num", 2), ("0", "num", 0), ("0.0", "num", 0.0), ("-0.0", "num", -0.0),
        ("0.5", "num", 0.5), ("1/2", "num", Fraction(1, 2)), ("0.5M", "num", Decimal("0.5")), ("big", "num", 10**30), ("bigf", "num", 1e30),
        ("true", "bool", True), ("false", "bool", False), ("nil", "nil", None),
        ('"a"', "str", "a"), ('"1"', "str", "1"), ('""', "str", ""), (":a", "kw", (None, "a")), (":a/a", "kw", ("a", "a")), ("'a", "sym", (None, "a")), ("'a/a", "sym", ("a", "a")),
    ]


def model_of(kind, payload):
    """canonical hashable model: equal models <=> values that the property calls equal"""
    if kind == "num":
        if isinstance(payload, float) and payload != payload:
            return ("nan", id(payload))
        return ("num", Fraction(payload))
    if kind in ("bool", "str", "kw", "sym"):
        return (kind, payload)
    if kind == "nil":
        return ("nil",)
    if kind == "seq":
        return ("seq", tuple(payload))
    if kind == "map":
        return ("map", frozenset(payload))
    if kind == "set":
        return ("set", frozenset(payload))
    raise KeyError(kind)


def has_nan(m):
    if isinstance(m, tuple):
        if m and m[0] == "nan":
            return True
        return any(has_nan(x) for x in m[1:])
    if isinstance(m, frozenset):
        return any(has_nan(x) for x in m)
    return False


def kinds_in(m, acc=None):
    acc = set() if acc is None else acc
    if isinstance(m, tuple) and m:
        if isinstance(m[0], str):
            acc.add(m[0])
        for x in m[1:]:
            kinds_in(x, acc)
    elif isinstance(m, frozenset):
        for x in m:
            kinds_in(x, acc)
    return acc


def plan(tier, seed):
    q = tier == "quick"
    hs = [0, 1] if q else [0, 1, 2, 3]
    shards = []
    for h in hs:
        parts = 2 if q else 4
        for p in range(parts):
            shards.append({"kind": "laws", "hashseed": h, "part": p, "parts": parts, "triple_core": 34 if q else 0})
    for i in range(2 if q else 8):
        shards.append({"kind": "random", "hashseed": hs[i % len(hs)], "n": 1500 if q else 12000})
    return {
        "level": "exploration",
        "exhaustive": True,
        "rule": "universe of ~95 values built from recipes covering every representation class (vector/list/cons/lazy-seq/map-result/queue/map-entry of the "
        "same elements; int/float/decimal/ratio of the same value; bool/nil; maps, sets, record); all ordered pairs (exhaustive), all triples over a core "
        "(quick: 34 values; thorough: all), under several hash seeds; plus random nested values with a mutated twin. distinct = distinct (law, tuple of recipe names); "
        "non-trivial = tuples of different recipes.",
        "shards": shards,
        "hashseeds": hs,
        "min_evaluations": 5000,
        "watchdog_s": 900 if q else 3000,
        "assumptions": ["cross-type numeric equality by exact value is the documented behaviour", "record-vs-map equality is checked only for symmetry and the hash law"],
    }


def worker(spec, out):
    from vf import boot

    b = boot.init()
    rnd = random.Random(spec["seed"])
    EQ, HASH, GET, CONTAINS = b.core("="), b.core("hash"), b.core("get"), b.core("contains?")
    pr = b.core("pr-str")
    K, S, V, L = b.kw.keyword, b.sym.symbol, b.vec.vector, b.llist.list
    cons, lazy_map, identity = b.core("cons"), b.core("map"), b.core("identity")
    ns = b.fresh_ns("vf.c05.")
    mk_lazy = b.eval_str("(fn [xs] (lazy-seq (seq xs)))", ns=ns)
    mk_queue = b.eval_str("(fn [xs] (into (queue) xs))", ns=ns)
    hash_map, hash_set = b.core("hash-map"), b.core("hash-set")
    b.eval_str("(defrecord R [a])", ns=ns)
    mk_rec = b.eval_str("->R", ns=ns)

    def scalar(kind, payload):
        if kind == "kw":
            return K(payload[1], ns=payload[0])
        if kind == "sym":
            return S(payload[1], ns=payload[0])
        return payload

    def build_seq(rep, items):
        if rep == "vector":
            return V(items)
        if rep == "list":
            return L(items)
        if rep == "cons":
            if not items:
                return L([])
            return cons(items[0], L(items[1:]))
        if rep == "lazyseq":
            return mk_lazy(V(items))
        if rep == "mapped":
            return lazy_map(identity, V(items))
        if rep == "queue":
            return mk_queue(V(items))
        raise KeyError(rep)

    U = []  # (name, value, model, repkind)

    def add(name, value, model, rep):
        U.append((name, value, model, rep))

    sc = {n: (scalar(k, p), model_of(k, p), k) for n, k, p in scalar_recipes()}
    for n, (v, m, k) in sc.items():
        add(n, v, m, {"num": type(v).__name__}.get(k, k))
    nanv = float("nan")
    add("NaN", nanv, ("nan", 1), "float")

    def seq_family(label, names):
        items = [sc[n][0] for n in names]
        model = model_of("seq", [sc[n][1] for n in names])
        for rep in SEQ_REPS:
            add(f"{rep}{label}", build_seq(rep, items), model, rep)

    seq_family("[1 2]", ["1", "2"])
    seq_family("[]", [])
    for rep in ("vector", "list", "lazyseq"):
        for label, names in (("[1]", ["1"]), ("[true]", ["true"]), ("[1.0]", ["1.0"]), ("[nil]", ["nil"]), ("[2 1]", ["2", "1"]), ("[1 2 0]", ["1", "2", "0"]), ("[0]", ["0"]), ("[false]", ["false"])):
            add(f"{rep}{label}", build_seq(rep, [sc[n][0] for n in names]), model_of("seq", [sc[n][1] for n in names]), rep)
    # map entry of 1 -> 2
    add("mapentry[1 2]", b.core("first")(hash_map(1, 2)), model_of("seq", [sc["1"][1], sc["2"][1]]), "mapentry")
    # nested
    m12 = model_of("seq", [sc["1"][1], sc["2"][1]])
    add("vector[[1 2]]", V([V([1, 2])]), model_of("seq", [m12]), "vector")
    add("vector[(1 2)]", V([L([1, 2])]), model_of("seq", [m12]), "vector")
    add("list[[1 2]]", L([V([1, 2])]), model_of("seq", [m12]), "list")
    add("vector[NaN]", V([nanv]), ("seq", (("nan", 1),)), "vector")

    def mapv(label, pairs):
        kv = []
        for kn, vn in pairs:
            kv += [kn[0], vn[0]]
        add("map" + label, hash_map(*kv), model_of("map", [(kn[1], vn[1]) for kn, vn in pairs]), "map")

    def ent(name):
        return (sc[name][0], sc[name][1])

    v12, l12, z12 = (V([1, 2]), m12), (L([1, 2]), m12), (mk_lazy(V([1, 2])), m12)
    mapv("{}", [])
    mapv("{1 2}", [(ent("1"), ent("2"))])
    mapv("{1.0 2}", [(ent("1.0"), ent("2"))])
    mapv("{true 2}", [(ent("true"), ent("2"))])
    mapv("{:a 1}", [(ent(":a"), ent("1"))])
    mapv("{:a 1.0}", [(ent(":a"), ent("1.0"))])
    mapv("{:a true}", [(ent(":a"), ent("true"))])
    mapv("{:a [1 2]}", [(ent(":a"), v12)])
    mapv("{:a (1 2)}", [(ent(":a"), l12)])
    mapv("{[1 2] :a}", [(v12, ent(":a"))])
    mapv("{(1 2) :a}", [(l12, ent(":a"))])
    mapv("{lazy(1 2) :a}", [(z12, ent(":a"))])
    mapv("{:a nil}", [(ent(":a"), ent("nil"))])
    mapv("{nil :a}", [(ent("nil"), ent(":a"))])
    mapv("{0 :a}", [(ent("0"), ent(":a"))])
    mapv("{false :a}", [(ent("false"), ent(":a"))])

    def setv(label, members):
        add("set" + label, hash_set(*[m[0] for m in members]), model_of("set", [m[1] for m in members]), "set")

    setv("#{}", [])
    setv("#{1}", [ent("1")])
    setv("#{1.0}", [ent("1.0")])
    setv("#{true}", [ent("true")])
    setv("#{0}", [ent("0")])
    setv("#{false}", [ent("false")])
    setv("#{[1 2]}", [v12])
    setv("#{(1 2)}", [l12])
    setv("#{1 2}", [ent("1"), ent("2")])
    setv("#{nil}", [ent("nil")])
    rec = mk_rec(1)
    add("record{:a 1}", rec, ("rec", 1), "record")

    names = [u[0] for u in U]
    idx = {n: i for i, n in enumerate(names)}

    def tryc(f, *a):
        try:
            return ("v", f(*a))
        except Exception as e:
            return ("x", type(e).__name__)

    def mech(x, y):
        """mechanism class of a pair for violation keys: the two representation kinds plus a bool/num conflation flag"""
        kx, ky = kinds_in(x[2]), kinds_in(y[2])
        flag = ""
        if ("bool" in kx and "num" in ky) or ("bool" in ky and "num" in kx):
            flag = "+bool~num"
        a, c = sorted([x[3], y[3]])
        return f"{a}~{c}{flag}"

    def conflate(m):
        """defect model for the recorded finding: Python == inside containers treats True as 1 and False as 0"""
        if isinstance(m, tuple):
            if m and m[0] == "bool":
                return ("num", Fraction(int(m[1])))
            return tuple(conflate(t) for t in m)
        if isinstance(m, frozenset):
            return frozenset(conflate(t) for t in m)
        return m

    def vkey(law, x, y, want, toplevel_direct=False):
        """mechanism key of a failed law on the pair (x, y); `want` is the model's verdict"""
        if want is False and x[2] != y[2] and conflate(x[2]) == conflate(y[2]):
            scalars = x[3] in ("bool", "int", "float", "Decimal", "Fraction") and y[3] in ("bool", "int", "float", "Decimal", "Fraction")
            if not (toplevel_direct and scalars):
                return "C05/bool-num-conflation/in-collection"
        return f"C05/{law}/{mech(x, y)}"

    def model_eq(x, y):
        if x[3] == "record" or y[3] == "record":
            return None  # not prescribed
        return x[2] == y[2]

    EQC = {}

    def eq(i, j):
        r = EQC.get((i, j))
        if r is None:
            r = tryc(EQ, U[i][1], U[j][1])
            if r[0] == "v":
                r = ("v", bool(r[1]))
            EQC[i, j] = r
        return r

    def check_pair(i, j):
        x, y = U[i], U[j]
        case = {"kind": "pair", "x": x[0], "y": y[0]}
        out.ev(("pair", x[0], y[0]) if i != j else None)
        e, e2 = eq(i, j), eq(j, i)
        if e[0] == "x" or e2[0] == "x":
            out.violation(f"C05/eq-raises/{mech(x, y)}", {"x": x[0], "y": y[0], "xy": e, "yx": e2}, case)
            return
        if e[1] != e2[1]:
            out.violation(f"C05/symmetry/{mech(x, y)}", {"x": x[0], "y": y[0], "(= x y)": e[1], "(= y x)": e2[1]}, case)
        me = model_eq(x, y)
        nan = has_nan(x[2]) or has_nan(y[2])
        if i == j:
            if not nan and not e[1]:
                out.violation(f"C05/reflexivity/{x[3]}", {"x": x[0]}, case)
        if me is not None and not nan and e[1] != me:
            out.violation(vkey(f"structural/{'equal-values-differ' if me else 'unequal-values-equal'}", x, y, me, True), {"x": x[0], "y": y[0], "(= x y)": e[1], "model": me, "printed": [pr(x[1]), pr(y[1])]}, case)
        equalish = e[1] or (me is True and not nan)
        if equalish and not nan:
            hx, hy = tryc(HASH, x[1]), tryc(HASH, y[1])
            out.count("hash_law_checked")
            if hx[0] == "x" or hy[0] == "x":
                out.violation(f"C05/hash-raises/{mech(x, y)}", {"x": x[0], "y": y[0], "hx": hx, "hy": hy}, case)
            elif hx[1] != hy[1]:
                out.violation(f"C05/hash-law/{mech(x, y)}", {"x": x[0], "y": y[0], "hash_x": hx[1], "hash_y": hy[1], "(= x y)": e[1]}, case)
        if nan:
            return
        # lookup: x as key / member, probed with y
        marker = K("v")
        g = tryc(lambda: GET(hash_map(x[1], marker), y[1]))
        c = tryc(lambda: CONTAINS(hash_set(x[1]), y[1]))
        out.count("lookup_checked")
        if me is not None:
            want = me
            if g[0] == "x" or (g[1] is marker) != want:
                out.violation(vkey(f"lookup/map-get/{'miss' if want else 'false-hit'}", x, y, want), {"x": x[0], "y": y[0], "(get {x :v} y)": repr(g), "model_equal": want}, case)
            if c[0] == "x" or bool(c[1]) != want:
                out.violation(vkey(f"lookup/set-contains/{'miss' if want else 'false-hit'}", x, y, want), {"x": x[0], "y": y[0], "(contains? #{x} y)": repr(c), "model_equal": want}, case)
            # wrapped comparisons
            for wname, wf in (("vector", lambda v: V([v])), ("list", lambda v: L([v])), ("mapval", lambda v: hash_map(K("k"), v)), ("set", lambda v: hash_set(v)), ("mapkey", lambda v: hash_map(v, 1))):
                w = tryc(lambda: bool(EQ(wf(x[1]), wf(y[1]))))
                out.count("wrapped_checked")
                if w[0] == "x" or w[1] != want:
                    out.violation(vkey(f"wrapped-{wname}/{'equal-values-differ' if want else 'unequal-values-equal'}", x, y, want), {"x": x[0], "y": y[0], "wrapped_equal": repr(w), "model_equal": want}, case)
            w = tryc(lambda: bool(EQ(V([x[1]]), L([y[1]]))))
            if w[0] == "x" or w[1] != want:
                out.violation(vkey(f"wrapped-vector-vs-list/{'equal-values-differ' if want else 'unequal-values-equal'}", x, y, want), {"x": x[0], "y": y[0], "wrapped_equal": repr(w), "model_equal": want}, case)

    def check_triple(i, j, k):
        out.ev(("triple", i, j, k) if len({i, j, k}) == 3 else None)
        a, c, d = eq(i, j), eq(j, k), eq(i, k)
        if "x" in (a[0], c[0], d[0]):
            return
        if a[1] and c[1] and not d[1]:
            x, y, z = U[i], U[j], U[k]
            if has_nan(x[2]) or has_nan(y[2]) or has_nan(z[2]):
                return
            out.violation(f"C05/transitivity/{mech(x, z)}", {"x": x[0], "y": y[0], "z": z[0], "x=y": True, "y=z": True, "x=z": False}, {"kind": "triple", "x": x[0], "y": y[0], "z": z[0]})

    if "replay" in spec:
        c = spec["replay"]
        if c["kind"] == "pair":
            check_pair(idx[c["x"]], idx[c["y"]])
            check_pair(idx[c["y"]], idx[c["x"]])
        elif c["kind"] == "triple":
            check_triple(idx[c["x"]], idx[c["y"]], idx[c["z"]])
        elif c["kind"] == "random":
            random_case(b, out, random.Random(c["seed"]), c)
        return

    if spec["kind"] == "laws":
        n = len(U)
        out.setx("universe_size", n)
        pairs = [(i, j) for i in range(n) for j in range(n)]
        for (i, j) in pairs[spec["part"]::spec["parts"]]:
            check_pair(i, j)
        core = list(range(n)) if not spec["triple_core"] else sorted(rnd.sample(range(n), min(n, spec["triple_core"])))
        # make sure the representation-class core is always in
        must = [idx[k] for k in ("vector[1 2]", "list[1 2]", "lazyseq[1 2]", "queue[1 2]", "mapentry[1 2]", "1", "1.0", "true", "vector[1]", "vector[true]", "map{1 2}", "map{true 2}") if k in idx]
        core = sorted(set(core) | set(must))
        triples = list(itertools.product(core, repeat=3))
        for t in triples[spec["part"]::spec["parts"]]:
            check_triple(*t)
        out.sample({"universe": names[:40]})
        out.sample({"pair": [U[idx["vector[1 2]"]][0], U[idx["list[1 2]"]][0]], "=": eq(idx["vector[1 2]"], idx["list[1 2]"]), "hashes": [HASH(U[idx["vector[1 2]"]][1]), HASH(U[idx["list[1 2]"]][1])]})
    else:
        for it in range(spec["n"]):
            random_case(b, out, rnd, {"seed": rnd.getrandbits(48)}, sample=(it < 3))


def random_case(b, out, rnd0, case, sample=False):
    """random nested value, an equal twin in other representations, and a mutated twin"""
    rnd = random.Random(case["seed"])
    EQ, HASH, GET, CONTAINS = b.core("="), b.core("hash"), b.core("get"), b.core("contains?")
    pr = b.core("pr-str")
    K, V, L = b.kw.keyword, b.vec.vector, b.llist.list
    hash_map, hash_set = b.core("hash-map"), b.core("hash-set")
    lazy_map, identity = b.core("map"), b.core("identity")

    def gen(depth):
        t = rnd.random()
        if depth <= 0 or t < 0.35:
            c = rnd.random()
            if c < 0.35:
                n = rnd.randint(-3, 3)
                return ("num", Fraction(n)), rnd.choice([lambda: n, lambda: float(n), lambda: Decimal(n)])
            if c < 0.5:
                s = rnd.choice(["", "a", "b", "1"])
                return ("str", s), (lambda: s)
            if c < 0.7:
                k = rnd.choice(["a", "b", "c"])
                return ("kw", k), (lambda: K(k))
            if c < 0.8:
                return ("nil",), (lambda: None)
            bb = rnd.random() < 0.5
            return ("bool", bb), (lambda: bb)
        if t < 0.7:
            kids = [gen(depth - 1) for _ in range(rnd.randint(0, 3))]
            return ("seq", tuple(k[0] for k in kids)), (lambda: rnd.choice([V, L, lambda xs: lazy_map(identity, V(xs))])([k[1]() for k in kids]))
        if t < 0.85:
            kids = {}
            for _ in range(rnd.randint(0, 3)):
                k, v = gen(depth - 1), gen(depth - 1)
                kids[k[0]] = (k, v)
            def mk():
                kv = []
                for k, v in kids.values():
                    kv += [k[1](), v[1]()]
                return hash_map(*kv)
            return ("map", frozenset((k[0], v[0]) for k, v in kids.values())), mk
        kids = {}
        for _ in range(rnd.randint(0, 3)):
            k = gen(depth - 1)
            kids[k[0]] = k
        return ("set", frozenset(kids)), (lambda: hash_set(*[k[1]() for k in kids.values()]))

    m, mk = gen(3)
    x, y = mk(), mk()  # same model, independently chosen representations
    m2, mk2 = gen(3)
    z = mk2()
    c = {"kind": "random", "seed": case["seed"]}
    out.ev(("rand", repr(m), repr(m2)))
    try:
        e = bool(EQ(x, y))
        e2 = bool(EQ(y, x))
        ez, ez2 = bool(EQ(x, z)), bool(EQ(z, x))
        hx, hy = HASH(x), HASH(y)
    except Exception as ex:
        out.violation(f"C05/random/raises/{type(ex).__name__}", {"x": pr(x), "y": pr(y), "z": pr(z), "exc": repr(ex)[:200]}, c)
        return
    boolnum = "+bool~num" if ({"bool", "num"} <= (kinds_in(m) | kinds_in(m2))) else ""
    if not e or not e2:
        out.violation("C05/random/equal-values-differ", {"x": pr(x), "y": pr(y), "xy": e, "yx": e2}, c)
    elif hx != hy:
        out.violation("C05/random/hash-law", {"x": pr(x), "y": pr(y), "hx": hx, "hy": hy}, c)
    else:
        g = GET(hash_map(x, 7), y)
        if g != 7 or not CONTAINS(hash_set(x), y):
            out.violation("C05/random/lookup-miss", {"x": pr(x), "y": pr(y), "get": repr(g)}, c)
    if ez != ez2:
        out.violation("C05/random/symmetry", {"x": pr(x), "z": pr(z), "xz": ez, "zx": ez2}, c)
    def conflate(t):
        if isinstance(t, tuple):
            if t and t[0] == "bool":
                return ("num", Fraction(int(t[1])))
            return tuple(conflate(u) for u in t)
        if isinstance(t, frozenset):
            return frozenset(conflate(u) for u in t)
        return t

    if ez != (m == m2):
        if ez and m != m2 and conflate(m) == conflate(m2) and m[0] in ("seq", "map", "set"):
            out.violation("C05/bool-num-conflation/in-collection", {"x": pr(x), "z": pr(z), "(= x z)": ez, "model": False}, c)
            return
        out.violation(f"C05/random/structural/{'equal-values-differ' if m == m2 else 'unequal-values-equal'}", {"x": pr(x), "z": pr(z), "(= x z)": ez, "model": m == m2}, c)
    if sample:
        out.sample({"x": pr(x), "twin": pr(y), "other": pr(z), "=twin": e, "=other": ez})
