"""Worker entry: python -m vf.worker <PROP> <spec.json>

Runs vf.props.<prop>.worker(spec, out) and writes JSON-lines records to spec["out"].
"""
from __future__ import annotations

import faulthandler
import hashlib
import importlib
import json
import os
import random
import sys
import time
import traceback


def jsonable(x, depth=0):
    if depth > 8:
        return repr(x)[:200]
    if x is None or isinstance(x, (bool, int, str)):
        if isinstance(x, int) and not isinstance(x, bool) and abs(x) > 2**62:
            return str(x)
        if isinstance(x, str):
            return x.encode("utf-8", "backslashreplace").decode("utf-8")
        return x
    if isinstance(x, float):
        return x if x == x and abs(x) != float("inf") else repr(x)
    if isinstance(x, dict):
        return {str(k): jsonable(v, depth + 1) for k, v in x.items()}
    if isinstance(x, (list, tuple)):
        return [jsonable(v, depth + 1) for v in x]
    if isinstance(x, (set, frozenset)):
        return sorted((jsonable(v, depth + 1) for v in x), key=repr)
    return repr(x)[:400]


class Out:
    MAX_SAMPLES = 12
    MAX_VIOL_PER_KEY = 3

    def __init__(self, path):
        self.path = path
        self.f = open(path, "a", buffering=1)
        self.counters = {}
        self.distinct = set()
        self._flushed = set()
        self.samples = []
        self.viol_per_key = {}
        self.extra = {}
        self.t0 = time.time()
        self._last_flush = time.time()

    # -- observations ---------------------------------------------------------
    def count(self, name, n=1):
        self.counters[name] = self.counters.get(name, 0) + n

    def ev(self, key=None, n=1):
        """One deciding-monitor evaluation; `key` (any repr-able) marks it distinct+non-trivial."""
        self.counters["evaluations"] = self.counters.get("evaluations", 0) + n
        if key is not None:
            self.dk(key)

    def dk(self, key):
        if not isinstance(key, (str, bytes)):
            key = repr(key)
        if isinstance(key, str):
            key = key.encode("utf-8", "backslashreplace")
        self.distinct.add(hashlib.blake2b(key, digest_size=6).hexdigest())

    def sample(self, obj, force=False):
        if force or len(self.samples) < self.MAX_SAMPLES:
            self.samples.append(jsonable(obj))

    def setx(self, name, value):
        self.extra[name] = jsonable(value)

    def addset(self, name, value):
        s = self.extra.setdefault(name, [])
        v = jsonable(value)
        if v not in s and len(s) < 400:
            s.append(v)

    # -- verdict records --------------------------------------------------------
    def violation(self, key, witness, case=None, title=None):
        n = self.viol_per_key.get(key, 0)
        self.viol_per_key[key] = n + 1
        if n < self.MAX_VIOL_PER_KEY:
            self._w({"t": "viol", "key": key, "title": title or key, "witness": jsonable(witness), "case": jsonable(case)})

    def incon(self, reason, case=None):
        self.count("inconclusive_cases")
        if self.counters["inconclusive_cases"] <= 5:
            self._w({"t": "incon", "reason": reason, "case": jsonable(case)})

    def _w(self, rec):
        self.f.write(json.dumps(rec, ensure_ascii=True) + "\n")

    def flush_obs(self, final=False):
        # only the digests that are new since the previous flush are written (the driver unions them): periodic flushes of the
        # whole set made shard files grow quadratically
        new = self.distinct - self._flushed
        self._flushed |= new
        self._w(
            {
                "t": "obs",
                "final": final,
                "counters": self.counters,
                "distinct": sorted(new),
                "samples": self.samples,
                "viol_counts": self.viol_per_key,
                "extra": self.extra,
                "wall_s": round(time.time() - self.t0, 2),
            }
        )

    def maybe_flush(self, every=20.0):
        if time.time() - self._last_flush > every:
            self._last_flush = time.time()
            self.flush_obs()

    def done(self):
        self.flush_obs(final=True)
        self._w({"t": "done"})
        self.f.close()


def main():
    prop, specpath = sys.argv[1], sys.argv[2]
    with open(specpath) as f:
        spec = json.load(f)
    out = Out(spec["out"])
    faulthandler.enable()
    wd = spec.get("watchdog_s")
    if wd:
        faulthandler.dump_traceback_later(max(5, wd - 5), exit=False)
    sys.setrecursionlimit(max(sys.getrecursionlimit(), 3000))
    random.seed(spec.get("seed", 0))
    try:
        mod = importlib.import_module("vf.props." + prop.lower())
        mod.worker(spec, out)
        out.done()
        rc = 0
    except BaseException as e:  # the harness itself failed: inconclusive, never a violation
        out._w({"t": "crash", "exc": repr(e), "tb": traceback.format_exc()[-6000:]})
        out.flush_obs()
        rc = 3
    sys.stdout.flush()
    sys.stderr.flush()
    os._exit(rc)


if __name__ == "__main__":
    main()
