"""pytest plugin (C15 thorough): the repository's own test-suite as a compile workload under the translation-validation monitor.

Loaded with `-p vf.pytest_c15` in a pytest run over /repo/tests. It wraps PythonASTOptimizer.visit in every pytest process (xdist
workers included), captures each (before, after) module pair the real compiler produces while the tests run, judges it against the
independent canonicaliser and appends the outcome to $VERIF_C15_OUT/<pid>.jsonl. The tests' own verdicts are irrelevant here: the
suite is a source of generated code, not an oracle.
"""
from __future__ import annotations

import ast
import copy
import hashlib
import json
import os

_OUT = os.environ.get("VERIF_C15_OUT")
_seen = set()
_stats = {"pairs": 0, "distinct": 0, "changed": 0, "ok": 0, "viol": 0}
_current = ["<collection>"]


def _emit(rec):
    if not _OUT:
        return
    with open(os.path.join(_OUT, "%d.jsonl" % os.getpid()), "a") as f:
        f.write(json.dumps(rec) + "\n")


def _install():
    import basilisp.lang.compiler.optimizer as optmod
    from basilisp.lang.compiler.constants import OPERATOR_ALIAS

    from vf import pyast_canon as pc

    orig = optmod.PythonASTOptimizer.visit
    if getattr(orig, "_vf_wrapped", False):
        return

    def wrapped(self, node):
        if not isinstance(node, ast.Module):
            return orig(self, node)
        try:
            before = copy.deepcopy(node)
        except RecursionError:
            return orig(self, node)
        after = orig(self, node)
        try:
            _judge(before, after)
        except RecursionError:
            pass
        return after

    def _judge(before, after):
        _stats["pairs"] += 1
        db = pc.dump(before)
        h = hashlib.sha1(db.encode()).digest()
        if h in _seen:
            return
        _seen.add(h)
        _stats["distinct"] += 1
        if db == pc.dump(after):
            return
        _stats["changed"] += 1
        cb, ca = pc.canon(before, OPERATOR_ALIAS), pc.canon(after, OPERATOR_ALIAS)
        if pc.dump(cb) == pc.dump(ca):
            _stats["ok"] += 1
            return
        _stats["viol"] += 1
        d = pc.first_difference(cb, ca) or ("?", "?", "?", "", "")
        try:
            src = ast.unparse(before)[:600]
        except Exception:
            src = "<unparse failed>"
        _emit({"t": "viol", "key": f"C15/rewrite/{d[1]}->{d[2]}", "where": d[0], "unoptimized_fragment": d[3], "optimized_fragment": d[4], "test": _current[0], "module_before": src})

    wrapped._vf_wrapped = True
    optmod.PythonASTOptimizer.visit = wrapped


_install()


def pytest_runtest_setup(item):
    _current[0] = item.nodeid


def pytest_sessionfinish(session, exitstatus):
    _emit({"t": "stats", **_stats})
