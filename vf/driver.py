"""Driver: ./check <ID> <quick|thorough> | ./check <ID> --replay <path>

Builds from $VERIF_REPO's working tree, spawns worker processes, aggregates what the
monitors observed, applies the known-findings file, writes evidence, decides the exit code:
 0 held on everything explored (possibly KNOWN-FINDING lines)
 1 VIOLATION (a violation whose mechanism key is not listed as open in known_findings.json)
 2 inconclusive (tree does not build / monitor never reached / every worker died)
"""
from __future__ import annotations

import hashlib
import importlib
import json
import os
import re
import shutil
import subprocess
import sys
import time
from pathlib import Path

from vf import build

VERIF = build.VERIF
EVID = VERIF / "evidence"
REPLAYS = EVID / "replays"
MAXPAR = int(os.environ.get("VERIF_JOBS", "16"))


def shard_seed(seed, prop, i):
    return int.from_bytes(hashlib.sha256(f"{seed}/{prop}/{i}".encode()).digest()[:6], "big")


def load_known(prop):
    p = VERIF / "known_findings.json"
    if not p.is_file():
        return {}
    data = json.loads(p.read_text())
    out = {}
    for e in data.get("findings", []):
        if e.get("property") == prop and e.get("status", "open") == "open":
            out[e["key"]] = e
    return out


def slug(s):
    t = re.sub(r"[^A-Za-z0-9]+", "-", s).strip("-")
    if len(t) <= 60:
        return t
    import hashlib

    return t[:52] + "-" + hashlib.sha1(s.encode()).hexdigest()[:7]


def run_shards(prop, shards, th, native, workdir, default_wd):
    """Run shard specs with bounded parallelism. Returns list of (spec, records, status)."""
    pending = list(enumerate(shards))
    running = []
    results = [None] * len(shards)

    def launch(i, spec):
        spec = dict(spec)
        spec["out"] = str(workdir / f"shard-{i}.jsonl")
        spec.setdefault("watchdog_s", default_wd)
        sp = workdir / f"shard-{i}.spec.json"
        sp.write_text(json.dumps(spec))
        env = build.child_env(th, native, spec.get("hashseed", 0), spec.get("env"))
        log = open(workdir / f"shard-{i}.log", "w")
        p = subprocess.Popen([build.PY, "-m", "vf.worker", prop, str(sp)], env=env, stdout=log, stderr=subprocess.STDOUT, cwd=str(VERIF), preexec_fn=build.die_with_parent)
        return (i, spec, p, time.time(), log)

    while pending or running:
        while pending and len(running) < MAXPAR:
            i, spec = pending.pop(0)
            running.append(launch(i, spec))
        time.sleep(0.05)
        still = []
        for (i, spec, p, t0, log) in running:
            rc = p.poll()
            if rc is None:
                if time.time() - t0 > spec["watchdog_s"]:
                    p.kill()
                    p.wait()
                    log.close()
                    results[i] = (spec, read_records(spec["out"]), "watchdog")
                else:
                    still.append((i, spec, p, t0, log))
            else:
                log.close()
                results[i] = (spec, read_records(spec["out"]), "ok" if rc == 0 else f"rc={rc}")
        running = still
    return results


def read_records(path):
    recs = []
    try:
        with open(path) as f:
            for line in f:
                line = line.strip()
                if line:
                    try:
                        recs.append(json.loads(line))
                    except Exception:
                        pass
    except FileNotFoundError:
        pass
    return recs


def aggregate(results):
    agg = {
        "counters": {},
        "distinct": set(),
        "samples": [],
        "viol": {},  # key -> list of records
        "viol_counts": {},
        "incon": [],
        "crashes": [],
        "extra": {},
        "dead": 0,
        "shards": len(results),
        "shard_status": [],
    }
    for spec, recs, status in results:
        agg["shard_status"].append(status)
        finished = any(r.get("t") == "done" for r in recs)
        if not finished:
            agg["dead"] += 1
        last_obs = None
        for r in recs:
            t = r.get("t")
            if t == "obs":
                last_obs = r
                agg["distinct"].update(r.get("distinct", ()))  # each obs record carries the digests new since the previous one
            elif t == "viol":
                r["hashseed"] = spec.get("hashseed", 0)
                agg["viol"].setdefault(r["key"], []).append(r)
            elif t == "incon":
                agg["incon"].append(r)
            elif t == "crash":
                agg["crashes"].append({"exc": r.get("exc"), "tb": r.get("tb", "")[-1500:], "status": status})
        if status == "watchdog":
            agg["incon"].append({"reason": "outer wall-clock watchdog fired for a shard", "case": {k: v for k, v in spec.items() if k not in ("out",)}})
        if last_obs:
            for k, v in last_obs["counters"].items():
                agg["counters"][k] = agg["counters"].get(k, 0) + v
            agg["distinct"].update(last_obs["distinct"])
            for s in last_obs["samples"]:
                agg["samples"].append(s)
            for k, v in last_obs.get("viol_counts", {}).items():
                agg["viol_counts"][k] = agg["viol_counts"].get(k, 0) + v
            for k, v in last_obs.get("extra", {}).items():
                cur = agg["extra"].get(k)
                if isinstance(v, list):
                    cur = cur or []
                    for x in v:
                        if x not in cur and len(cur) < 400:
                            cur.append(x)
                    agg["extra"][k] = cur
                elif isinstance(v, (int, float)) and not isinstance(v, bool):
                    agg["extra"][k] = (cur or 0) + v
                elif isinstance(v, dict):
                    cur = cur or {}
                    for kk, vv in v.items():
                        if isinstance(vv, (int, float)) and not isinstance(vv, bool):
                            cur[kk] = cur.get(kk, 0) + vv
                        else:
                            cur.setdefault(kk, vv)
                    agg["extra"][k] = cur
                else:
                    agg["extra"].setdefault(k, v)
    return agg


def thin(samples, n=10):
    if len(samples) <= n:
        return samples
    step = len(samples) / n
    return [samples[int(i * step)] for i in range(n)]


def main(argv=None):
    argv = list(sys.argv[1:] if argv is None else argv)
    if not argv:
        print("usage: check <ID> <quick|thorough> | check <ID> --replay <path>")
        return 2
    prop = argv[0].upper()
    tier = os.environ.get("VERIF_TIER", "quick")
    replay = None
    rest = argv[1:]
    while rest:
        a = rest.pop(0)
        if a == "--replay":
            replay = rest.pop(0)
        elif a in ("quick", "thorough"):
            tier = a
    seed = int(os.environ.get("VERIF_SEED", "0") or 0)
    t0 = time.time()
    mod = importlib.import_module("vf.props." + prop.lower())

    if replay:
        rp = json.loads(Path(replay).read_text())
        plan = {"hashseeds": [rp.get("hashseed", 0)], "shards": [{"hashseed": rp.get("hashseed", 0), "replay": rp["case"], "seed": rp.get("seed", 0)}], "watchdog_s": 900}
    else:
        plan = mod.plan(tier, seed)
        for i, s in enumerate(plan["shards"]):
            s.setdefault("seed", shard_seed(seed, prop, i))
            s.setdefault("tier", tier)
            s.setdefault("hashseed", 0)

    hashseeds = sorted({s.get("hashseed", 0) for s in plan["shards"]} | set(plan.get("hashseeds", [])))
    try:
        th, native, binfo = build.prepare(hashseeds)
    except build.BuildError as e:
        print(f"INCONCLUSIVE property={prop}: the tree does not build/bootstrap\n{e}")
        return 2

    workdir = build.WORK / f"{prop}-{tier}-{os.getpid()}"
    shutil.rmtree(workdir, ignore_errors=True)
    workdir.mkdir(parents=True)
    results = run_shards(prop, plan["shards"], th, native, workdir, plan.get("watchdog_s", 900))
    agg = aggregate(results)
    if hasattr(mod, "post"):
        # optional driver-side cross-shard oracle (must not import basilisp)
        mod.post(plan, results, agg)
    wall = round(time.time() - t0, 2)

    known = load_known(prop)
    unknown_keys = [k for k in agg["viol"] if k not in known]
    known_met = [k for k in agg["viol"] if k in known]
    for k in known_met:
        e = known[k]
        print(f"KNOWN-FINDING: property={prop} {k} :: {e.get('title','')} (seen {agg['viol_counts'].get(k, len(agg['viol'][k]))}x this run)")

    if replay:
        if agg["viol"]:
            for k in agg["viol"]:
                print(f"VIOLATION property={prop} replay={replay}  key={k}")
                print("  witness:", json.dumps(agg["viol"][k][0]["witness"])[:1500])
            return 1
        if agg["dead"]:
            print(f"INCONCLUSIVE property={prop}: replay worker died: {agg['crashes'][:1]}")
            return 2
        print(f"replay of {replay}: no violation reproduced")
        return 0

    REPLAYS.mkdir(parents=True, exist_ok=True)
    for old in REPLAYS.glob(f"{prop}-*.json"):
        try:
            old.unlink()
        except OSError:
            pass
    viol_lines = []
    for k in unknown_keys:
        recs = agg["viol"][k]
        for n, r in enumerate(recs[:2]):
            path = REPLAYS / f"{prop}-{slug(k)}-{n}.json"
            path.write_text(json.dumps({"property": prop, "key": k, "title": r.get("title"), "hashseed": r.get("hashseed", 0), "seed": seed, "case": r.get("case"), "witness": r.get("witness")}, indent=1))
            if n == 0:
                viol_lines.append((k, path, r))

    evals = agg["counters"].get("evaluations", 0)
    min_evals = plan.get("min_evaluations", 1)
    coverage = {
        "evaluations": evals,
        "distinct_nontrivial": len(agg["distinct"]),
        "rule": plan.get("rule", ""),
        "samples": thin(agg["samples"], 10),
        "counters": agg["counters"],
        "hashseeds": hashseeds,
        "shards": agg["shards"],
        "shards_dead": agg["dead"],
        "known_finding_keys_met": sorted(known_met),
        "violation_keys": sorted(unknown_keys),
        "violation_counts": agg["viol_counts"],
        "inconclusive_cases": agg["counters"].get("inconclusive_cases", 0) + sum(1 for s in agg["shard_status"] if s != "ok"),
        "inconclusive_samples": agg["incon"][:5],
        "tree_hash": th,
        "build": binfo,
    }
    if plan.get("exhaustive") is not None:
        coverage["exhaustive"] = bool(plan["exhaustive"]) and agg["dead"] == 0
    coverage.update(agg["extra"])
    if plan.get("level") == "translation_validation":
        coverage["programs"] = agg["counters"].get("programs", evals)
        coverage["disagreements_checked"] = agg["counters"].get("disagreements_checked", 0)
    if agg["crashes"]:
        coverage["worker_crashes"] = agg["crashes"][:3]
    evidence = {
        "property_id": prop,
        "tier": tier,
        "seed": seed,
        "level": plan.get("level", "exploration"),
        "coverage": coverage,
        "assumptions": plan.get("assumptions", []),
        "wall_s": wall,
        "violations": len(unknown_keys),
    }
    EVID.mkdir(exist_ok=True)
    (EVID / f"{prop}.json").write_text(json.dumps(evidence, indent=1, ensure_ascii=True) + "\n")
    shutil.rmtree(workdir, ignore_errors=True) if not os.environ.get("VERIF_KEEP_WORK") else None

    for r in agg["incon"][:5]:
        print(f"INCONCLUSIVE-CASE property={prop} {r.get('reason')} {json.dumps(r.get('case'))[:300]}")
    for c in agg["crashes"][:3]:
        print(f"WORKER-CRASH property={prop} {c['exc']}\n{c['tb']}")

    print(f"{prop} {tier} seed={seed}: evaluations={evals} distinct_nontrivial={len(agg['distinct'])} shards={agg['shards']} dead={agg['dead']} known={len(known_met)} new_violation_keys={len(unknown_keys)} wall={wall}s")
    for name in sorted(agg["counters"]):
        if name != "evaluations":
            print(f"   {name}={agg['counters'][name]}")

    if viol_lines:
        for k, path, r in viol_lines[:8]:
            print(f"VIOLATION property={prop} replay={path.relative_to(VERIF)}  key={k}")
            print("  witness:", json.dumps(r.get("witness"))[:800])
        if len(viol_lines) > 8:
            print(f"... and {len(viol_lines) - 8} more violation keys (see evidence/{prop}.json coverage.violation_keys and evidence/replays/)")
        return 1
    if agg["dead"] * 2 > agg["shards"]:
        print(f"INCONCLUSIVE property={prop}: {agg['dead']} of {agg['shards']} shards did not finish (outer watchdog or worker crash); no verdict")
        return 2
    if evals < min_evals or len(agg["distinct"]) < 2:
        print(f"INCONCLUSIVE property={prop}: deciding monitor reached only {evals} evaluations (< {min_evals}); no verdict")
        return 2
    return 0


if __name__ == "__main__":
    sys.exit(main())
