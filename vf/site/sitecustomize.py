"""Preload the native extension built from $VERIF_REPO/rust as basilisp._lang.

Placed first on PYTHONPATH of every child the checks spawn, so in-process workers,
`basilisp run` children and importer children all run the freshly built native code
instead of whatever _lang.abi3.so happens to lie in the source tree.
"""
import os
import sys


def _preload():
    so = os.environ.get("VERIF_NATIVE_SO")
    if not so or not os.path.isfile(so):
        return
    try:
        import importlib.machinery
        import importlib.util

        import basilisp  # noqa: F401  (package only; does not import basilisp.lang)

        loader = importlib.machinery.ExtensionFileLoader("basilisp._lang", so)
        spec = importlib.util.spec_from_file_location("basilisp._lang", so, loader=loader)
        mod = importlib.util.module_from_spec(spec)
        sys.modules["basilisp._lang"] = mod
        loader.exec_module(mod)
        basilisp._lang = mod
        # pyo3 registers the submodule itself when add_submodule + sys.modules hack is used by the crate;
        # make sure `basilisp._lang.seq` resolves.
        sub = getattr(mod, "seq", None)
        if sub is not None and "basilisp._lang.seq" not in sys.modules:
            sys.modules["basilisp._lang.seq"] = sub
    except Exception as e:  # pragma: no cover
        sys.stderr.write("verif sitecustomize: native preload failed: %r\n" % (e,))
        sys.modules.pop("basilisp._lang", None)


_preload()
