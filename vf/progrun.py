"""Run generated programs (vf.progs) on the real compiler and compare with the reference evaluator.
Imported in workers only."""
from __future__ import annotations

import itertools

from vf import progs

OPTION_SETS = [dict(use_var_indirection=a, inline_functions=c, generate_auto_inlines=d) for a in (False, True) for c in (True, False) for d in (True, False)]


class HC:
    """harness class for (new HC a b) / (HC. a b)"""

    def __init__(self, *a):
        self.a = a


class HO:
    """harness object `o` with method m returning its arguments as a vector"""

    fld = 7

    def __init__(self, vec):
        self._vec = vec

    def m(self, *a):
        return self._vec(*a)


class ProgTimeout(BaseException):
    pass


class Runner:
    time_limit = 15.0  # generous outer bound for programs whose reference run takes a few hundred steps

    def __init__(self, b):
        self.b = b
        self.trace = []
        self.ns = None
        self.n_in_ns = 0
        self._ctxs = {}
        from basilisp.lang import interfaces as I

        self.I = I
        self.Var = b.runtime.Var
        self.CompilerException = b.compiler.CompilerException

    def fresh(self):
        b = self.b
        if self.ns is not None:
            b.drop_ns(self.ns)
        self.ns = b.fresh_ns("vf.prog.")
        tr = self.trace

        def t(k, v):
            tr.append(k)
            return v

        b.intern(self.ns, "t", t)
        b.intern(self.ns, "idf", lambda x: x)
        b.intern(self.ns, "o", HO(b.vec.v))
        b.intern(self.ns, "HC", HC)
        self.n_in_ns = 0
        self._ctxs = {}

    def norm(self, v, depth=0):
        b, I = self.b, self.I
        if v is None or isinstance(v, (bool, int, str)):
            return v
        if isinstance(v, b.kw.Keyword):
            return ("kw", v.name if v.ns is None else v.ns + "/" + v.name)
        if isinstance(v, b.sym.Symbol):
            return ("sym", v.name if v.ns is None else v.ns + "/" + v.name)
        if depth > 40:
            return ("deep",)
        if isinstance(v, I.IPersistentVector):
            return ("vec", tuple(self.norm(x, depth + 1) for x in v))
        if isinstance(v, I.IPersistentMap):
            return ("map", frozenset((self.norm(k, depth + 1), self.norm(x, depth + 1)) for k, x in v.items()))
        if isinstance(v, I.IPersistentSet):
            return ("set", frozenset(self.norm(x, depth + 1) for x in v))
        if isinstance(v, I.ISeq) or isinstance(v, I.IPersistentList):
            return ("list", tuple(self.norm(x, depth + 1) for x in v))
        if isinstance(v, self.Var):
            return ("var", v.name.name)
        if isinstance(v, HC):
            return ("hc", tuple(self.norm(x, depth + 1) for x in v.a))
        if isinstance(v, HO):
            return ("obj",)
        if isinstance(v, BaseException):
            return ("exc", type(v).__name__)
        if callable(v):
            return ("fn",)
        return ("other", type(v).__name__)

    def run_text(self, text, optset=0, fresh=False):
        """returns (outcome, trace); outcome = ("val", norm) | ("exc", classname) | ("compile-error", class, msg)"""
        b = self.b
        if self.ns is None or fresh or self.n_in_ns >= 150:
            self.fresh()
        self.n_in_ns += 1
        ctx = self._ctxs.get(optset)
        if ctx is None:
            ctx = self._ctxs[optset] = b.ctx(b.opts(**OPTION_SETS[optset]))
        del self.trace[:]
        import signal

        def _alarm(sig, frm):
            raise ProgTimeout()

        old = signal.signal(signal.SIGALRM, _alarm)
        signal.setitimer(signal.ITIMER_REAL, self.time_limit)
        try:
            try:
                v = b.eval_str(text, ns=self.ns, ctx=ctx)
                out = ("val", self.norm(v))
            finally:
                signal.setitimer(signal.ITIMER_REAL, 0)
                signal.signal(signal.SIGALRM, old)
        except ProgTimeout:
            out = ("timeout", self.time_limit)
        except self.CompilerException as e:
            out = ("compile-error", type(e).__name__, str(getattr(e, "msg", e))[:160])
        except RecursionError:
            out = ("exc", "RecursionError")
        except Exception as e:
            tb = e.__traceback__
            # an exception raised by compile() of generated code (not by running it)
            out = ("exc", type(e).__name__)
            if isinstance(e, (SyntaxError, ValueError)) and _raised_in_compile(tb):
                out = ("compile-error", type(e).__name__, str(e)[:160])
        return out, list(self.trace)


def _raised_in_compile(tb):
    last = None
    while tb is not None:
        last = tb
        tb = tb.tb_next
    if last is None:
        return False
    code = last.tb_frame.f_code
    return code.co_name in ("compile_and_exec_form", "_incremental_compile_module") and "compiler" in code.co_filename


def predictions(prog):
    """faithful expectation plus the defect-model predictions"""
    out = {}
    for name, (cells, hoist) in (("faithful", (False, False)), ("cells", (True, False)), ("hoist", (False, True)), ("cells+hoist", (True, True))):
        try:
            out[name] = progs.Ref(cells=cells, hoist=hoist).run(prog)
        except progs.StepLimit:
            out[name] = None if name == "faithful" else "diverges"
        except RecursionError:
            out[name] = None if name == "faithful" else "diverges"
    return out


def classify(observed, preds, what):
    """what: 'result' or 'trace' or 'both'. Returns None if observed matches the faithful semantics,
    else ('known', model-name) if it equals a defect model's prediction, else ('new', None)."""
    def proj(x):
        if x is None:
            return None
        res, tr = x
        if what == "result":
            return res
        if what == "trace":
            return tuple(tr)
        if what == "multiset":
            return tuple(sorted(tr))
        return (res, tuple(tr))

    o = proj(observed)
    if preds["faithful"] is None:
        return ("skip", None)
    if o == proj(preds["faithful"]):
        return None
    for name in ("cells", "hoist", "cells+hoist"):
        if preds[name] == "diverges":
            # the defect model itself recurses without bound (a closure that observes a later rebinding of a loop local which holds
            # the closure): predicted outcome is unbounded recursion
            if observed[0] == ("exc", "RecursionError") or observed[0][0] == "timeout":
                return ("known", name)
            continue
        if preds[name] is not None and o == proj(preds[name]):
            return ("known", name)
    return ("new", None)
