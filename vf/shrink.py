"""Greedy structural reducer for vf.progs programs (witness minimisation)."""
from __future__ import annotations


def kids(n):
    k = n[0]
    if k in ("const", "local", "global", "quote", "throw"):
        return []
    if k == "if":
        return [n[1], n[2]] + ([n[3]] if n[3] is not None else [])
    if k == "do":
        return list(n[1])
    if k in ("let", "loop"):
        return [e for _, e in n[1]] + list(n[2])
    if k == "letfn":
        return [f for _, f in n[1]] + list(n[2])
    if k == "fn":
        out = []
        for params, rest, body in n[2]:
            out += list(body)
        return out
    if k == "call":
        return [n[1]] + list(n[2])
    if k == "recur":
        return list(n[1])
    if k == "try":
        out = list(n[1])
        for cls, nm, body in n[2]:
            out += list(body)
        if n[3] is not None:
            out += list(n[3])
        return out
    if k == "def":
        return [n[2]]
    if k in ("vec", "list", "set"):
        return list(n[1])
    if k == "map":
        out = []
        for a, c in n[1]:
            out += [a, c]
        return out
    if k in ("prim", "icall"):
        return list(n[2])
    if k == "t":
        return [n[2]]
    raise ValueError(k)


def with_kids(n, ks):
    k = n[0]
    ks = list(ks)
    if k in ("const", "local", "global", "quote", "throw"):
        return n
    if k == "if":
        return ("if", ks[0], ks[1], ks[2] if n[3] is not None else None)
    if k == "do":
        return ("do", ks)
    if k in ("let", "loop"):
        nb = len(n[1])
        return (k, [(nm, ks[i]) for i, (nm, _) in enumerate(n[1])], ks[nb:])
    if k == "letfn":
        nb = len(n[1])
        return (k, [(nm, ks[i]) for i, (nm, _) in enumerate(n[1])], ks[nb:])
    if k == "fn":
        ars = []
        i = 0
        for params, rest, body in n[2]:
            ars.append((params, rest, ks[i : i + len(body)]))
            i += len(body)
        return ("fn", n[1], ars)
    if k == "call":
        return ("call", ks[0], ks[1:])
    if k == "recur":
        return ("recur", ks)
    if k == "try":
        i = len(n[1])
        body = ks[:i]
        cs = []
        for cls, nm, b in n[2]:
            cs.append((cls, nm, ks[i : i + len(b)]))
            i += len(b)
        fin = ks[i:] if n[3] is not None else None
        return ("try", body, cs, fin)
    if k == "def":
        return ("def", n[1], ks[0])
    if k in ("vec", "list", "set"):
        return (k, ks)
    if k == "map":
        return ("map", [(ks[2 * i], ks[2 * i + 1]) for i in range(len(n[1]))])
    if k in ("prim", "icall"):
        return (k, n[1], ks)
    if k == "t":
        return ("t", n[1], ks[0])
    raise ValueError(k)


def smaller(n):
    """structurally smaller variants of this node itself (not of its children)"""
    k = n[0]
    for c in kids(n):
        if c[0] not in ("recur",):
            yield c
    if k not in ("const",):
        yield ("const", None)
        yield ("const", 1)
    if k == "do" and len(n[1]) > 1:
        for i in range(len(n[1])):
            yield ("do", n[1][:i] + n[1][i + 1 :])
    if k in ("let", "loop"):
        if k == "let":
            for i in range(len(n[1])):
                yield (k, n[1][:i] + n[1][i + 1 :], n[2])
        if len(n[2]) > 1:
            for i in range(len(n[2])):
                yield (k, n[1], n[2][:i] + n[2][i + 1 :])
        if k == "let" and len(n[2]) == 1 and not n[1]:
            yield n[2][0]
    if k == "letfn" and len(n[2]) > 1:
        for i in range(len(n[2])):
            yield (k, n[1], n[2][:i] + n[2][i + 1 :])
    if k == "fn":
        if len(n[2]) > 1:
            for i in range(len(n[2])):
                yield ("fn", n[1], n[2][:i] + n[2][i + 1 :])
        for ai, (params, rest, body) in enumerate(n[2]):
            if len(body) > 1:
                for i in range(len(body)):
                    yield ("fn", n[1], n[2][:ai] + [(params, rest, body[:i] + body[i + 1 :])] + n[2][ai + 1 :])
        if n[1]:
            yield ("fn", None, n[2])
    if k == "try":
        if len(n[1]) > 1:
            for i in range(len(n[1])):
                yield ("try", n[1][:i] + n[1][i + 1 :], n[2], n[3])
        for i in range(len(n[2])):
            if len(n[2]) > 1 or n[3] is not None:
                yield ("try", n[1], n[2][:i] + n[2][i + 1 :], n[3])
        if n[3] is not None and n[2]:
            yield ("try", n[1], n[2], None)
    if k in ("vec", "list", "set") and n[1]:
        for i in range(len(n[1])):
            yield (k, n[1][:i] + n[1][i + 1 :])
    if k == "map" and n[1]:
        for i in range(len(n[1])):
            yield (k, n[1][:i] + n[1][i + 1 :])
    if k == "t":
        yield n[2]
    if k == "if" and n[3] is not None:
        yield ("if", n[1], n[2], None)


def variants(n):
    """all one-step reductions of the tree rooted at n"""
    for s in smaller(n):
        yield s
    ks = kids(n)
    for i, c in enumerate(ks):
        for v in variants(c):
            yield with_kids(n, ks[:i] + [v] + ks[i + 1 :])


def shrink(prog, fails, max_tests=400, max_seconds=20.0):
    """greedy: repeatedly take the first smaller variant that still fails"""
    import time

    t0 = time.time()
    tests = 0
    cur = prog
    improved = True
    while improved and tests < max_tests:
        improved = False
        for v in variants(cur):
            tests += 1
            if tests > max_tests or time.time() - t0 > max_seconds:
                return cur
            try:
                ok = fails(v)
            except Exception:
                ok = False
            if ok:
                cur = v
                improved = True
                break
    return cur
