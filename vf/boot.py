"""In-worker bootstrap: init basilisp, scratch namespaces, eval helpers.

Imported only inside worker processes (never by the driver).
"""
from __future__ import annotations

import contextlib
import itertools
import sys
import threading

_lock = threading.Lock()
_B = None


class B:
    """Handle on the live basilisp runtime of this process."""

    def __init__(self):
        from basilisp import main as bmain

        bmain.init()
        from basilisp.lang import compiler, reader, runtime
        from basilisp.lang import keyword as kw
        from basilisp.lang import list as llist
        from basilisp.lang import map as lmap
        from basilisp.lang import queue as lqueue
        from basilisp.lang import seq as lseq
        from basilisp.lang import set as lset
        from basilisp.lang import symbol as sym
        from basilisp.lang import vector as vec

        self.compiler = compiler
        self.reader = reader
        self.runtime = runtime
        self.kw, self.sym = kw, sym
        self.llist, self.lmap, self.lset, self.vec, self.lqueue, self.lseq = llist, lmap, lset, vec, lqueue, lseq
        self.core_ns = runtime.Namespace.get(runtime.CORE_NS_SYM)
        self._ctr = itertools.count()
        self._default_ns = self.fresh_ns("vf.scratch")

    # -- namespaces ---------------------------------------------------------
    def fresh_ns(self, prefix="vf.s"):
        name = self.sym.symbol(f"{prefix}{next(self._ctr)}")
        ns = self.runtime.Namespace.get_or_create(name)
        ns.refer_all(self.core_ns)
        return ns

    def drop_ns(self, ns):
        try:
            self.runtime.Namespace.remove(ns.name if hasattr(ns, "name") else ns)
        except Exception:
            pass
        sys.modules.pop(getattr(ns.module, "__name__", ""), None)

    @contextlib.contextmanager
    def in_ns(self, ns):
        with self.runtime.ns_bindings(ns.name) as n:
            yield n

    def intern(self, ns, name, value, dynamic=False):
        v = self.runtime.Var.intern(ns, self.sym.symbol(name), value, dynamic=dynamic)
        return v

    # -- reading / evaluating -------------------------------------------------
    def read_all(self, text, **kw):
        return list(self.reader.read_str(text, **kw))

    def opts(self, **kw):
        return self.compiler.compiler_opts(**kw)

    def ctx(self, opts=None, filename="<vf>"):
        return self.compiler.CompilerContext(filename, opts=opts)

    def eval_forms(self, forms, ns=None, ctx=None):
        ns = ns or self._default_ns
        ctx = ctx or self.ctx()
        last = None
        with self.in_ns(ns):
            for f in forms:
                last = self.compiler.compile_and_exec_form(f, ctx, ns)
        return last

    def eval_str(self, text, ns=None, ctx=None, opts=None):
        """Read `text` form by form inside `ns` (so that syntax-quote and aliases resolve there)
        and compile+exec each form. Returns the value of the last one."""
        ns = ns or self._default_ns
        ctx = ctx or self.ctx(opts)
        last = None
        with self.in_ns(ns):
            for f in self.reader.read_str(text, resolver=self.runtime.resolve_alias):
                last = self.compiler.compile_and_exec_form(f, ctx, ns)
        return last

    def core(self, name):
        v = self.core_ns.find(self.sym.symbol(name))
        if v is None:
            raise KeyError(name)
        return v.value

    def var(self, ns_name, name):
        return self.runtime.Var.find(self.sym.symbol(name, ns=ns_name))


def init() -> B:
    global _B
    with _lock:
        if _B is None:
            _B = B()
        return _B
