"""Build step shared by every check: tree hash, native extension, cache dirs.

Never imports basilisp.  Never writes inside $VERIF_REPO.
"""
from __future__ import annotations

import hashlib
import os
import shutil
import subprocess
import sys
import time
from pathlib import Path

VERIF = Path(__file__).resolve().parent.parent
REPO = Path(os.environ.get("VERIF_REPO", "/repo")).resolve()
BUILD = VERIF / ".build"
CACHE = VERIF / ".cache"
WORK = VERIF / ".work"
PY = os.environ.get("VERIF_PYTHON", "/venv/bin/python")


def die_with_parent():
    """preexec_fn: the child gets SIGKILL when the process that spawned it dies (no orphaned wedged interpreters)"""
    try:
        import ctypes
        import signal

        ctypes.CDLL("libc.so.6", use_errno=True).prctl(1, signal.SIGKILL, 0, 0, 0)  # PR_SET_PDEATHSIG
    except Exception:
        pass


def _iter_sources():
    src = REPO / "src"
    for p in sorted(src.rglob("*")):
        if p.suffix in (".py", ".lpy", ".cljc") and p.is_file():
            yield p
    rust = REPO / "rust"
    for p in sorted((rust / "src").rglob("*")):
        if p.is_file():
            yield p
    for n in ("Cargo.toml", "Cargo.lock"):
        if (rust / n).is_file():
            yield rust / n


def tree_hash() -> str:
    h = hashlib.sha256()
    for p in _iter_sources():
        h.update(str(p.relative_to(REPO)).encode())
        h.update(b"\0")
        h.update(p.read_bytes())
        h.update(b"\0")
    return h.hexdigest()[:16]


def rust_hash() -> str:
    h = hashlib.sha256()
    for p in _iter_sources():
        if "rust" in p.relative_to(REPO).parts[:1]:
            h.update(str(p.relative_to(REPO)).encode())
            h.update(p.read_bytes())
    return h.hexdigest()[:16]


class BuildError(Exception):
    pass


def build_native() -> Path:
    """cargo build the native extension from $VERIF_REPO/rust into /verif/.build.

    Keyed by a hash of the rust sources so that an unchanged crate is not rebuilt.
    """
    rh = rust_hash()
    out = BUILD / "native" / rh / "_lang.abi3.so"
    if out.is_file():
        return out
    target = BUILD / "cargo"
    target.mkdir(parents=True, exist_ok=True)
    env = dict(os.environ)
    env["CARGO_TARGET_DIR"] = str(target)
    env["CARGO_NET_OFFLINE"] = "true"
    env["PYO3_PYTHON"] = PY
    cmd = [
        "cargo",
        "build",
        "--release",
        "--offline",
        "--manifest-path",
        str(REPO / "rust" / "Cargo.toml"),
    ]
    p = subprocess.run(cmd, env=env, capture_output=True, text=True)
    if p.returncode != 0:
        raise BuildError("cargo build failed:\n" + p.stdout[-4000:] + p.stderr[-8000:])
    lib = target / "release" / "libbasilisp_native.so"
    if not lib.is_file():
        raise BuildError(f"cargo build produced no {lib}")
    out.parent.mkdir(parents=True, exist_ok=True)
    tmp = out.with_suffix(".tmp%d" % os.getpid())
    shutil.copyfile(lib, tmp)
    os.replace(tmp, out)
    # keep only the 3 newest native builds
    dirs = sorted((BUILD / "native").iterdir(), key=lambda d: d.stat().st_mtime)
    for d in dirs[:-3]:
        shutil.rmtree(d, ignore_errors=True)
    return out


def cache_dir(th: str, hashseed: int | str) -> Path:
    return CACHE / f"{th}-{hashseed}"


def prune_caches(keep_th: str) -> None:
    if not CACHE.is_dir():
        return
    by_th: dict[str, list[Path]] = {}
    for d in CACHE.iterdir():
        if d.is_dir():
            by_th.setdefault(d.name.split("-")[0], []).append(d)
    order = sorted(by_th, key=lambda t: max(d.stat().st_mtime for d in by_th[t]))
    keep = set(order[-2:]) | {keep_th}
    for t, ds in by_th.items():
        if t not in keep:
            for d in ds:
                shutil.rmtree(d, ignore_errors=True)


def child_env(th: str, native: Path, hashseed: int | str, extra: dict | None = None) -> dict:
    env = dict(os.environ)
    env.pop("PYTHONDONTWRITEBYTECODE", None)
    pp = [str(VERIF / "vf" / "site"), str(REPO / "src"), str(VERIF)]
    deps = VERIF / ".deps"
    if deps.is_dir():
        pp.append(str(deps))
    env["PYTHONPATH"] = os.pathsep.join(pp)
    env["VERIF_NATIVE_SO"] = str(native)
    env["VERIF_REPO"] = str(REPO)
    env["PYTHONPYCACHEPREFIX"] = str(cache_dir(th, hashseed))
    env["PYTHONHASHSEED"] = str(hashseed)
    env["BASILISP_EMIT_GENERATED_PYTHON"] = "false"
    env["BASILISP_VERIF"] = "1"
    env["PYTHONUNBUFFERED"] = "1"
    env["PYTHONWARNINGS"] = "ignore"
    scratch = WORK / "scratch"
    scratch.mkdir(parents=True, exist_ok=True)
    env["VERIF_SCRATCH"] = str(scratch)
    if extra:
        env.update({k: str(v) for k, v in extra.items()})
    return env


def warm(th: str, native: Path, hashseeds) -> dict:
    """Compile basilisp.core (and the commonly used libs) into each cache dir, in parallel."""
    procs = []
    t0 = time.time()
    for hs in hashseeds:
        cd = cache_dir(th, hs)
        marker = cd / ".warm"
        if marker.is_file():
            continue
        cd.mkdir(parents=True, exist_ok=True)
        env = child_env(th, native, hs)
        code = (
            "import importlib\n"
            "from basilisp import main as m\n"
            "m.init()\n"
            "for n in ('basilisp.string','basilisp.set','basilisp.walk','basilisp.edn','basilisp.json','basilisp.contrib.bencode'):\n"
            "    importlib.import_module(n)\n"
        )
        p = subprocess.Popen([PY, "-c", code], env=env, stdout=subprocess.PIPE, stderr=subprocess.STDOUT, text=True)
        procs.append((hs, p, marker))
    fails = {}
    for hs, p, marker in procs:
        try:
            out, _ = p.communicate(timeout=600)
        except subprocess.TimeoutExpired:
            p.kill()
            out, _ = p.communicate()
            fails[hs] = "timeout\n" + (out or "")[-3000:]
            continue
        if p.returncode != 0:
            fails[hs] = (out or "")[-6000:]
        else:
            marker.write_text("ok")
    return {"warm_s": round(time.time() - t0, 2), "fails": fails}


def prepare(hashseeds=(0,)):
    """Full build step. Returns (treehash, native_path, info)."""
    th = tree_hash()
    native = build_native()
    prune_caches(th)
    info = warm(th, native, hashseeds)
    if info["fails"]:
        raise BuildError("basilisp does not bootstrap on this tree:\n" + "\n".join(f"[hashseed {k}]\n{v}" for k, v in info["fails"].items()))
    return th, native, info


if __name__ == "__main__":
    t = time.time()
    th, native, info = prepare(tuple(int(x) for x in sys.argv[1:]) or (0,))
    print(th, native, info, round(time.time() - t, 1))
