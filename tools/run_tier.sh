#!/bin/bash
# usage: tools/run_tier.sh <tier> <logfile> CNN...   -- runs the checks one after another, appends summary lines to the log
tier=$1; log=$2; shift 2
cd "$(dirname "$(readlink -f "$0")")/.." || exit 2
for p in "$@"; do
  s=$(date +%s)
  ./check $p $tier > .work/tier-$p-$tier.out 2>&1; rc=$?
  e=$(date +%s)
  echo "$p $tier exit=$rc wall=$((e-s))s $(grep -E "^$p $tier" .work/tier-$p-$tier.out | cut -c1-200)" >> $log
  grep -E "^VIOLATION|^INCONCLUSIVE|^KNOWN" .work/tier-$p-$tier.out | cut -c1-300 >> $log
done
echo "ALL DONE" >> $log
