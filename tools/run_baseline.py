#!/usr/bin/env python3
"""Run the repository's pinned test suite (hooks off) and report stable-pass tests that no longer pass."""
import json, subprocess, sys, os, tempfile, xml.etree.ElementTree as ET
repo = sys.argv[1] if len(sys.argv) > 1 else "/repo"
base = json.load(open("/root/.vp/BASELINE.json"))
out = tempfile.mktemp(suffix=".xml", prefix="baseline-", dir="/tmp")
env = dict(os.environ); env.pop("BASILISP_VERIF", None)
env["PYTHONPATH"] = repo + "/src"
cmd = ["/venv/bin/python", "-m", "pytest", "-q", "-p", "no:cacheprovider", "--timeout=900", "--continue-on-collection-errors", "-n", sys.argv[2] if len(sys.argv) > 2 else "6", "--junitxml=" + out]
p = subprocess.run(cmd, cwd=repo, env=env, capture_output=True, text=True)
print(p.stdout[-600:])
passed = set()
for tc in ET.parse(out).getroot().iter("testcase"):
    name = tc.get("classname") + "::" + tc.get("name")
    if not any(ch.tag in ("failure", "error", "skipped") for ch in tc):
        passed.add(name)
stable = set(base["stable_pass"])
missing = sorted(stable - passed)
print("stable_pass:", len(stable), "still passing:", len(stable & passed), "NOT passing:", len(missing))
for m in missing[:40]:
    print("  LOST", m)
os.unlink(out)
sys.exit(1 if missing else 0)
