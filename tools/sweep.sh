#!/bin/bash
# usage: tools/sweep.sh <logfile> <seeds> CNN...  -- quick tier over several VERIF_SEED values
log=$1; seeds=$2; shift 2
cd "$(dirname "$(readlink -f "$0")")/.." || exit 2
for p in "$@"; do for s in $seeds; do
  VERIF_SEED=$s ./check $p quick > .work/sweep-$p-$s.out 2>&1; rc=$?
  echo "$p seed=$s exit=$rc $(grep -E "^$p quick" .work/sweep-$p-$s.out | cut -c1-160)" >> $log
  grep -E "^VIOLATION|^INCONCLUSIVE " .work/sweep-$p-$s.out | cut -c1-260 >> $log
done; done
echo "SWEEP DONE" >> $log
