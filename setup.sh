#!/bin/bash
# Offline setup: build the native extension from /repo/rust, install contract libs beside the
# repository's interpreter (target dir, git-ignored), warm the default caches.
cd "$(dirname "$(readlink -f "$0")")" || exit 2
export PIP_NO_INDEX=1 CARGO_NET_OFFLINE=true
PY="${VERIF_PYTHON:-/venv/bin/python}"
if [ ! -d .deps/icontract ]; then
  "$PY" -m pip install -q --no-index --find-links /opt/veriftools/wheels --target .deps icontract deal >/dev/null 2>&1 || echo "note: icontract/deal not installed (only the C04 thorough contracts workload needs them)"
fi
"$PY" -B -m vf.build 0 1 2 || exit 1
echo setup ok
