#!/usr/bin/env python3
"""Regenerate MANIFEST.json from the table below (python3 mk_manifest.py)."""
import json
import os

HERE = os.path.dirname(os.path.abspath(__file__))

# id -> (category, technique, level text, level note, design ref)
CHECKS = {
    "C20": (
        "exploration",
        "runtime differential monitor: real core arithmetic (compiled call / inlining off / apply / literal operands) vs exact rational reference + quot/rem/mod identity assertions",
        "Held on every operand tuple executed: all ordered pairs of a 40-element int/ratio/decimal/float universe x 7 binary ops x 3-4 routes, plus random operands up to 2^200 and n-ary chains. Exploration is the right level: the property quantifies over unbounded operands, the monitor observes real executions only.",
        "Trusted: CPython int/Fraction arithmetic as the exact reference; the harness' contagion table (float > decimal > exact) as stated in numbers.py; float/decimal values are compared only for type, route agreement and 1e-9 closeness.",
        "DESIGN.md section 5 C20",
    ),
}

CHECKS["C17"] = (
    "exploration",
    "runtime law monitor over real compare/sort executions: antisymmetry, transitivity, zero<=>equal, nil-lowest, (ns,name) order, reference value order; sort = ordered stable permutation, input-order independent",
    "Held on all ordered pairs and triples of a 12-14 element universe per comparable family (exhaustive for those universes), all permutations of 6 (thorough 7) distinct elements per family through sort/sort-by with default, boolean and 3-way comparators, and random lists with ties for stability. Exploration: the families are unbounded, only the enumerated universes are exhaustive.",
    "Trusted: Fraction/str ordering of CPython as reference for numbers/strings; relative order of namespaced vs plain idents and the particular vector order are not prescribed (laws only).",
    "DESIGN.md section 5 C17",
)
CHECKS["C05"] = (
    "exploration",
    "runtime law monitor: =, hash, get/contains? and wrapped comparisons on every pair/triple of a recipe-built universe, judged against a structural model derived from the construction recipe",
    "Held (apart from the recorded bool/number conflation finding) on all ordered pairs of a ~95-value universe covering every representation class, triples over a core, several hash seeds, and random nested values with independently represented twins. Exploration with exhaustive pair coverage of the stated universe.",
    "Trusted: the harness' structural model (numbers by exact value, sequentials by order, maps/sets by entries); record-vs-map equality only checked for symmetry/hash law; NaN-containing values excluded from reflexivity.",
    "DESIGN.md section 5 C05",
)

CHECKS["C01"] = (
    "exploration",
    "differential reference monitor: generated special-form programs compiled and run by the real compiler (6 syntactic contexts x 8 option sets, special forms and macros, importer path) vs an independent reference evaluator; defect-model evaluators separate recorded findings from new violations",
    "Held (apart from recorded findings) on every generated program executed: exhaustive small programs (<=4, thorough <=5 nodes) plus thousands of random typed programs with loops, escaping closures, try/catch/finally, letfn, def, interop, unsafe names. Exploration: programs are unbounded; only executions produced are judged.",
    "Trusted: vf/progs.py Ref evaluator as the semantics of the fragment; results containing functions compared up to :fn; fn parameters are kept munge-distinct in the bulk generator (munge collisions are a recorded finding exercised separately).",
    "DESIGN.md section 5 C01",
)
CHECKS["C02"] = (
    "exploration",
    "runtime effect-trace monitor: tracer calls recorded while compiled programs run, compared with the reference evaluator's effect trace (multiset then order); container x position x compound table, random programs, all :inline core Vars with traced arguments",
    "Held (apart from recorded findings: hoisted dependencies, textual auto-inlining of 6 core fns) on the full container/position/compound table (26 containers, among them host field access on call targets and as if tests, x up to 4 positions x 11 compounds x 3 option sets), random and exhaustive small programs, and every inline core Var. Exploration.",
    "Trusted: the reference evaluator's left-to-right exactly-once trace; for map/set literals only the multiset of effects is judged; a call that raises on ill-typed arguments is only required to show an in-order prefix.",
    "DESIGN.md section 5 C02",
)

CHECKS["C03"] = (
    "exploration",
    "print->read inversion monitor: pr-str / lrepr output of generated values is re-read by the real reader and compared node by node (type-aware, NaN/-0.0 aware, metadata-aware), then re-printed (idempotence), under all 8 print-control combinations and several hash seeds",
    "Held (apart from 4 recorded findings) on all strings to length 3 (thorough 4) over a 12-13 character escape alphabet, a float boundary table plus random bit patterns, all scalar kinds and thousands of random nested values with metadata. Exploration: the value universe is unbounded.",
    "Trusted: the harness' structural equality; Decimals only required to round-trip with *print-dup*; reader-attached location metadata is stripped before metadata comparison and re-printing.",
    "DESIGN.md section 5 C03",
)

CHECKS["C04"] = (
    "exploration",
    "history + executable model monitor (Python list/dict/set models mirrored op by op, every value ever produced re-checked against its creation-time snapshot, hash and metadata) plus an invariant hook on every public method of the five persistent classes (receiver unchanged across the call)",
    "Held on branching histories over the five collection types: exhaustive to length 2 and a 1/3 (thorough: length 4, 1/8) systematic sample of length 3 over a key universe with equal keys of different representation, random histories to length 60 growing past 33/1057 elements with transient round trips, several hash seeds; thorough also runs the repository's own core/collection/reader/runtime tests with the receiver-immutability hook loaded in every pytest process (their verdicts ignored). Exploration.",
    "Trusted: the Python list/dict/set models and the harness' model-key function (numbers by value, sequentials by elements); error behaviour of pop/nth outside the collection, iteration order and metadata propagation through pop/rest/merge/transients are not judged.",
    "DESIGN.md section 5 C04",
)

CHECKS["C07"] = (
    "exploration",
    "differential reference monitor: the five application forms (lazy, into, sequence, transduce, eduction) of every listed function and of comp pipelines vs list-based reference definitions; instrumented inputs count pulls, an instrumented reducing function counts completion calls",
    "Held (apart from the recorded distinct/bool-number conflation) on 52 function/parameter cases x all inputs to length 4 (thorough 6) over {nil,false,0,1,2,:a} x 5 forms (exhaustive), random pipelines of depth 2-3, and terminating pipelines on inputs of length 4L/8L/infinite with pull and completion counting (a logical bound of 20000 pulls on infinite inputs; take n must consume nothing after the deciding element). Exploration.",
    "Trusted: the Python reference definitions of the 18 functions; parameters kept in the unambiguous domain; inner partition types not compared; transduce on an empty collection returning init without completion is documented and not judged.",
    "DESIGN.md section 5 C07",
)

CHECKS["C16"] = (
    "exploration",
    "runtime totality/classification/span monitor on the real reader: every outcome must be Lisp-data forms or a located SyntaxError (per-input alarm for termination); texts with status known by construction (token-boundary prefixes of generated valid programs, injected malformations) and an independent bracket/quote scanner decide EOF-vs-syntax classification; span metadata is checked by re-reading the span text",
    "Held on all strings to length 4 (thorough 5) over a 24-character reader alphabet and to length 6 (thorough 7) over the 8 delimiter characters (exhaustive), ~2000 generated programs with LF/CRLF/CR and multi-byte characters with all owed-form prefixes, string cuts, malformations and single-character edits, and the bundled .lpy sources with line-ending rewrites, span checks and random edits. Exploration.",
    "Trusted: the harness' scanner (abstains on character literals, dispatch forms and metadata), its offset map for LF/CRLF/CR, and printed-form equality for span re-reading; syntax-quoted top-level forms are outside the span property; user data readers are not generated.",
    "DESIGN.md section 5 C16",
)

CHECKS["C12"] = (
    "exploration",
    "schedule exploration with an online history checker: 2-3 real threads performing atom operations are serialised at statement granularity by a cooperative scheduler (sys.monitoring LINE yield injection, lock proxies); recorded call/return histories are checked for linearizability against a sequential atom model (unique tokens), validator/watch/return-value oracles, and a CAS-retry bound counted at a hook",
    "Held on thousands of distinct interleavings: seeded random walks over random 2-3 thread scenarios, depth-first enumeration of schedules with <= 2 preemptions for 4 fixed scenarios (budget-capped; completeness reported in evidence), free-running stress with a 1 microsecond switch interval, and single-threaded termination over values not equal to themselves. Exploration: only the interleavings produced are judged.",
    "Trusted: the sequential atom model and the brute-force linearizability search (histories <= 9 ops); preemption is assumed to matter only at statement boundaries of the instrumented code objects; watch ordering across threads is not constrained.",
    "DESIGN.md section 5 C12, section 3.5",
)

CHECKS["C13"] = (
    "exploration",
    "schedule exploration with history checkers: threads racing to force one delay / deliver to and deref one promise are serialised at statement granularity by the cooperative scheduler (virtual-time condition waits); body enter/exit events, deref values and realized? samples are checked against once-only / write-once-register / monotonicity oracles; futures run on the real executor with harness rendezvous events",
    "Held on thousands of distinct interleavings of 2-4 threads (seeded random walks plus depth-first enumeration with <= 2 preemptions of one delay and one promise scenario, budget-capped) and hundreds of future runs (value/nil/exception bodies; deref before, during and after completion; racing derefs) under a 1 microsecond switch interval. Exploration.",
    "Trusted: the history oracles; preemption assumed to matter only at statement boundaries of the instrumented code objects; a throwing delay body may be re-run or its exception cached.",
    "DESIGN.md section 5 C13, section 3.5",
)

CHECKS["C11"] = (
    "fault_enumeration",
    "fault injection with an observer plus schedule stress: failures are injected at every position and push order of establishing a multi-Var binding (non-dynamic Var, validator rejection) through binding / with-bindings / push-thread-bindings; generated nested histories of push/pop/set!/throw/convey/isolated-reader steps are compared step by step with a per-thread frame-stack model; 2-3 threads run such histories under the cooperative scheduler",
    "Held on the enumerated establishment faults (all subsets, positions, push orders, nesting depth 0-2), random well-nested histories to depth 4 with conveyance through bound-fn, future and pmap and isolated reader threads, and multi-threaded runs (random walks and <= 2-preemption enumeration). Fault enumeration for the establishment failures; exploration for the rest.",
    "Trusted: the frame-stack model (set! changes the innermost binding of that Var, which may belong to an outer frame and then outlives the inner form); set! outside any binding frame is not generated; pmap is realised inside the binding scope that creates it.",
    "DESIGN.md section 5 C11",
)

CHECKS["C06"] = (
    "exploration",
    "runtime monitoring with counting producers: single-threaded consumption histories over 9 lazy source kinds are compared with a list model (at-most-once, agreement, on-demand bound, exception propagation); multi-threaded scenarios (blocking, sleeping, throwing, re-entrant producers; 2-4 walkers) run each in its own child interpreter against the native module rebuilt from /repo/rust, with faulthandler armed and an outer watchdog that must fire 3/3 to count as a liveness violation",
    "Held on thousands of single-threaded histories and ~80 (thorough ~1800) multi-threaded scenario instances of 7 families (the seventh: consumers entering one inner sequence directly and through lazy-seq / lazy-cat / concat wrappers while its producer is parked) with real preemption (1 microsecond switch interval, GIL-releasing producers). Exploration: interleavings are those the OS scheduler produced, not enumerated - the native mutex is invisible to Python-level yield injection.",
    "Trusted: the list model of each source; both retry and re-raise are accepted after a producer exception; the 3/3 watchdog rule for interpreter wedges; lock-order inversions between two different lazy seqs are not driven.",
    "DESIGN.md section 5 C06",
)

CHECKS["C08"] = (
    "exploration",
    "runtime monitor with a reference arity resolver: functions compiled from every arity signature report [arity-tag params rest] and count body entries; calls through direct/Var/apply/partial shapes are compared with the reference (matching arity, bindings, rest seq, or arity error before any body); lazy argument tails count realized cells; Python frame depth is sampled inside recur loops",
    "Held on all 162 arity signatures x 19 call shapes with a stratified 1/6 sample of argument counts 0..8 in quick (all in thorough), 4 compiler option sets, finite and infinite lazy argument tails, and 5 recur programs with 10^4 (thorough 10^6) iterations. Exploration (thorough enumerates the stated finite space completely).",
    "Trusted: the reference resolver ref_call; the class of arity errors is not prescribed; compile-time arity warnings are ignored; apply may realize one cell more than binding and the more-arguments test need.",
    "DESIGN.md section 5 C08",
)

CHECKS["C19"] = (
    "fault_enumeration",
    "codec inversion monitors with an exhaustive split enumeration: EDN values are written and read back through the EDN reader and the Lisp reader, JSON values through write-str/read-str (documented coercions applied to the expectation), bencode messages through encode/decode; every byte split of every generated bencode stream is decoded with decode-all and compared with the framing oracle, including the accumulate-and-continue loop",
    "Held on all strings to length 3 over a 15-character escape alphabet plus thousands of random nested values per codec, and on every split point (exhaustive per stream) of 300 (thorough 9600) bencode streams of 1-5 messages with framing look-alike payloads. Fault enumeration over truncation points; exploration over values.",
    "Trusted: the harness structural equality and JSON coercion table; bencode dict keys are strings on the way in and byte strings on the way out (the encoder's documented domain); an empty remainder may be nil or empty bytes; corrupted streams are out of scope.",
    "DESIGN.md section 5 C19",
)

CHECKS["C18"] = (
    "exploration",
    "history + from-scratch reference monitor: after every step of add/remove/prefer/derive/underive/call histories the real multimethod is called on every dispatch value and compared with a reference resolution computed from the current tables only; a rebuilt multimethod (other insertion order, cold cache) and several hash seeds check order/cache independence; hierarchy closure invariants are asserted after every derive/underive",
    "Held on a systematic sample of all length-3 (thorough: length-4) histories over a 17-op alphabet, random histories to length 40, 3 (thorough 6) hash seeds, global and explicit hierarchies, and a concurrent call-while-redefine stress. Exploration.",
    "Trusted: the reference resolver (unique candidate that precedes all others; default method; ambiguity error); direct vs inherited preference semantics both accepted; a preference contradicting the hierarchy may resolve to either method or raise.",
    "DESIGN.md section 5 C18",
)

CHECKS["C15"] = (
    "translation_validation",
    "invariant at a hook: PythonASTOptimizer.visit is wrapped in the worker and every (before, after) module pair produced while the real compiler compiles basilisp.core, the bundled namespaces (from source, caching off), the generated program corpus and a targeted operator corpus is checked rewrite by rewrite against an independent canonicaliser of the allowed rewrites; generated programs and operator forms are also executed with the real optimizer and with a least-optimizing baseline (value, exception class, effect trace compared)",
    "Held on ~11000 module pairs in quick (core + 12 library namespaces + generated programs + 2400 operator forms + 300 nested-def programs with sync/async levels and unreachable code), of which ~5000 were actually changed by the optimizer and each validated; thorough adds all bundled namespaces, ~126000 generated programs and the repository's compiler/core/library tests as a compile workload under the monitor (~500000 pairs). Translation validation of the executions produced, not a proof about the pass.",
    "Trusted: vf/pyast_canon.py as the definition of the allowed rewrites; CPython's ast/compile; Name loads are effect free; location attributes ignored.",
    "DESIGN.md section 5 C15",
)

CHECKS["C14"] = (
    "fault_enumeration",
    "fault injection with an observer: real .lpyc files written by a child under one hash seed are truncated, header-perturbed or made stale, then imported by fresh child interpreters under other hash seeds with the importer's loader paths and bytecode execution wrapped; the child reports the path taken, cached code objects executed, a canonical namespace snapshot with probe forms compiled at run time, and the state of the cache afterwards; the decoding layer is driven with every small and strided truncation length",
    "Held on generated namespaces (keywords, symbols, records, multimethods, protocols, typed constants, macros, nested requires) and bundled library namespaces: valid-cache transparency under reader seeds 2-3 (thorough 2-7), empty file, ~25 (thorough 300+) truncation offsets per namespace, all header field perturbations, three kinds of stale source, each followed by a validity check of the rewritten cache; ~8000 truncation lengths at the decoding layer in quick. Fault enumeration over the listed faults, sampled offsets through the full import path.",
    "Trusted: snapshot canonicalisation (addresses, gensym counters and hash-collection order normalised); corruption other than truncation/header perturbation and same-second same-size edits are out of scope.",
    "DESIGN.md section 5 C14",
)

CHECKS["C10"] = (
    "exploration",
    "history + executable model monitor: after every step of def/redef/alias/refer(:rename)/alter-var-root histories every spelling of every visible name (bare, alias, qualified, @#', resolve, ns-resolve, syntax-quote) is compiled and run under direct linking and var indirection with and without inlining, from both namespaces, and compared with a (ns, name) -> Var -> (root, last def) model; injectivity, privacy, local shadowing and thread-binding visibility are asserted at each step",
    "Held (apart from the recorded munge non-injectivity) on ~560 (thorough 9600) random histories over 12 names with munging near-collisions in 2 namespaces plus 9 fixed scenarios, ~70000 compiled reads in quick. Exploration.",
    "Trusted: the name/Var model; alter-var-root on a direct-linked, non-redef, non-dynamic Var may or may not be visible (both accepted, as documented).",
    "DESIGN.md section 5 C10",
)

CHECKS["C09"] = (
    "exploration",
    "reference-model monitors: (a) generated destructuring patterns applied in let/fn/loop to conforming, short, nil and wrongly typed values, each bound name compared with the accessor expression derived from the pattern and evaluated with the real nth/nthnext/get of the same process, plus evaluation of the macroexpansion; (b) generated syntax-quote templates evaluated under three namespace states and compared with the data a reference resolver computes (qualification, gensym identity and freshness, unquote/splice values, collection types), plus single reader streams in which a symbol's meaning changes between two templates",
    "Held on ~4700 (thorough 320000) destructuring evaluations over ~1500 distinct (pattern, value, form) and ~1200 (thorough 54000) templates, 40 (600) changing-resolution streams. Exploration only.",
    "Trusted: the accessor derivation from patterns (:or = get with default), the reference resolver for syntax-quote. Patterns outside the documented vocabulary (duplicate names, kwargs rest outside fn params) are not generated.",
    "DESIGN.md section 5 C09",
)

NOT_BUILT ="check not built yet in this session (design in DESIGN.md section 5); not claimed until its monitor exists and is quiet on the unchanged tree"


def main():
    props = [json.loads(l) for l in open(os.path.join(HERE, "properties.jsonl"))]
    checks = []
    na = []
    for p in props:
        pid = p["id"]
        if pid in CHECKS:
            cat, tech, text, note, ref = CHECKS[pid]
            checks.append(
                {
                    "property_id": pid,
                    "quick_cmd": f"./check {pid} quick",
                    "thorough_cmd": f"./check {pid} thorough",
                    "evidence_file": f"evidence/{pid}.json",
                    "replay_cmd_template": f"./check {pid} --replay {{path}}",
                    "engine": "vf",
                    "level_claimed": {"category": cat, "text": text, "design_ref": ref},
                    "level_note": note,
                    "technique": tech,
                }
            )
        else:
            na.append({"property_id": pid, "reason": NOT_BUILT})
    m = {
        "version": 1,
        "setup_cmd": "./setup.sh",
        "hooks": {
            "guard": "BASILISP_VERIF",
            "enable": "no source hooks in /repo: monitors attach from outside (sys.monitoring LINE events, method wrappers, threading proxies, optimizer wrapper); checks rebuild the native module from /repo/rust into /verif/.build and preload it; children run with BASILISP_VERIF=1",
            "baseline_off_cmd": "cd /repo && /venv/bin/python -m pytest -ra -q -p no:cacheprovider --timeout=900 --continue-on-collection-errors",
            "source_commits": [],
            "add_only": True,
        },
        "engines": [
            {
                "name": "vf",
                "path": "vf/",
                "serves_properties": [c["property_id"] for c in checks],
                "kind_free_text": "runtime monitoring: driver spawns worker processes that run real basilisp code under generated/hostile workloads; reference-model monitors, invariant hooks, fault injection and a cooperative sys.monitoring scheduler decide; evidence reports what monitors observed",
            }
        ],
        "checks": checks,
        "not_applicable": na,
        "notes": "Technique family: runtime monitoring and sanitizers. See DESIGN.md. Exit 0 held / 1 VIOLATION / 2 inconclusive. known_findings.json lists genuine defects recorded rather than repaired.",
    }
    with open(os.path.join(HERE, "MANIFEST.json"), "w") as f:
        json.dump(m, f, indent=1)
        f.write("\n")


if __name__ == "__main__":
    main()
